#!/bin/bash
# usage: seed_eval.sh <seed-name> <worktree> <property-id> [more property ids...]
# Confirms a seeded change (suite passes, demo fails with / passes without) and runs the checks against it.
name=$1; wt=$2; shift 2
export GOFLAGS=-mod=mod GOPROXY=off GOSUMDB=off GOTOOLCHAIN=local
cd $wt || exit 2
git checkout -q go.mod go.sum 2>/dev/null
pkgs=$(ls -d */ | grep -v _seed | sed 's#/##' | tr '\n' ' ')
echo "== existing suite with change (demo skipped)"
go test -vet=off -count=1 -skip 'TestDemo' ./... 2>&1 | grep -v "no test files" | tail -8
echo "== demo with change (expect FAIL)"
go test -vet=off -count=1 -run 'TestDemo' ./... 2>&1 | grep -E "^(--- |FAIL|ok|panic)" | head -8
git checkout -q go.mod go.sum 2>/dev/null
git stash -q
echo "== demo without change (expect PASS)"
go test -vet=off -count=1 -run 'TestDemo' ./... 2>&1 | grep -E "^(--- |FAIL|ok|panic)" | head -8
git checkout -q go.mod go.sum 2>/dev/null
git stash pop -q
mkdir -p /verif/seeded/$name
cp _seed/patch.diff _seed/demo_test.go _seed/notes.md /verif/seeded/$name/ 2>/dev/null
cd /verif
# the checks run against the worktree itself (VERIF_REPO): /repo is not touched
for id in "$@"; do
  echo "== check $id against the change"
  VERIF_REPO=$wt ./check.sh $id quick 2>&1 | grep -E "^VIOLATION|^property=|^  |machinery" | cut -c1-220 | head -12
done
