#!/bin/sh
# runs every claimed check at the given tier (default quick); prints one line per property
tier=${1:-quick}
for id in $(python3 -c "import json;print(' '.join(c['property_id'] for c in json.load(open('/verif/MANIFEST.json'))['checks']))"); do
  out=$(./check.sh $id $tier 2>&1); rc=$?
  echo "rc=$rc $(echo "$out" | grep -E '^property=' | cut -c1-260)"
  echo "$out" | grep -E "^VIOLATION|machinery" | head -5
done
