package main

// gosym selftest: validation of the assumptions the G-family rests on
// (DESIGN.md §5.2). For every seed of the harness corpus and a number of
// concrete layouts (extra blanks per gap, inserted lines per slot, drawn with
// VERIF_SEED) the concrete stretched text is parsed and lexed by the real HCL
// parser and every position of the result is compared with the stretch map
// (A-PARSE, A-LEX, A-BOUNDARY). This is validation of the encoding by
// concrete runs; no property verdict rests on it.

import (
	"fmt"
	"math/rand"
	"os"
	"reflect"
	"regexp"
	"strconv"
	"strings"

	"github.com/hashicorp/hcl/v2"
	"github.com/hashicorp/hcl/v2/hclsyntax"
)

type concreteStretch struct {
	src    string
	toks   hclsyntax.Tokens
	gaps   []gapInfo
	deltas []int
	slotAt int // seed offset of the one slot that receives text (-1: none)
	slot   string
	eofOK  bool
}

func (c *concreteStretch) text() string {
	var b strings.Builder
	ins := map[int]string{}
	for i, g := range c.gaps {
		ins[g.end] += strings.Repeat(" ", c.deltas[i])
	}
	for i := 0; i <= len(c.src); i++ {
		if i == c.slotAt {
			b.WriteString(c.slot)
		}
		if x, ok := ins[i]; ok {
			b.WriteString(x)
		}
		if i < len(c.src) {
			b.WriteByte(c.src[i])
		}
	}
	return b.String()
}

func (c *concreteStretch) image(p hcl.Pos, isEnd bool) hcl.Pos {
	if p.Line == 0 && p.Column == 0 && p.Byte == 0 {
		return p
	}
	// inside a token or a blank run: relative to the start of that token / run
	base := p
	bound := false
	for _, t := range c.toks {
		if t.Range.Start.Byte == p.Byte || t.Range.End.Byte == p.Byte {
			bound = true
		}
	}
	if !bound && p.Byte != len(c.src) {
		for _, t := range c.toks {
			if t.Range.Start.Byte < p.Byte && p.Byte < t.Range.End.Byte {
				base = t.Range.Start
			}
		}
		if base == p {
			s := p.Byte
			for s > 0 && (c.src[s-1] == ' ' || c.src[s-1] == '\t') {
				s--
			}
			base = hcl.Pos{Line: p.Line, Column: p.Column - (p.Byte - s), Byte: s}
		}
	}
	out := base
	for i, g := range c.gaps {
		if g.end <= base.Byte {
			out.Byte += c.deltas[i]
			if g.line == base.Line {
				out.Column += c.deltas[i]
			}
		}
	}
	if c.slotAt >= 0 && (c.slotAt < base.Byte || (c.slotAt == base.Byte && (!isEnd || base.Byte == len(c.src)))) {
		out.Byte += len(c.slot)
		out.Line += strings.Count(c.slot, "\n")
	}
	if base != p {
		dl := p.Line - base.Line
		out.Byte += p.Byte - base.Byte
		if dl == 0 {
			out.Column += p.Column - base.Column
		} else {
			out.Line += dl
			out.Column = p.Column
		}
	}
	return out
}

// collectRanges walks a value and lists every hcl.Range in a fixed order.
func collectRanges(v reflect.Value, out *[]hcl.Range, seen map[uintptr]bool, depth int) {
	if depth > 80 || !v.IsValid() {
		return
	}
	if v.Type() == reflect.TypeOf(hcl.Range{}) {
		*out = append(*out, readable2(v).Interface().(hcl.Range))
		return
	}
	switch v.Kind() {
	case reflect.Pointer:
		if v.IsNil() || seen[v.Pointer()] {
			return
		}
		seen[v.Pointer()] = true
		collectRanges(v.Elem(), out, seen, depth+1)
	case reflect.Interface:
		if !v.IsNil() {
			collectRanges(v.Elem(), out, seen, depth+1)
		}
	case reflect.Struct:
		if strings.HasPrefix(v.Type().PkgPath(), "github.com/zclconf/go-cty") || v.Type().PkgPath() == "math/big" {
			return
		}
		if !v.CanAddr() {
			tmp := reflect.New(v.Type()).Elem()
			tmp.Set(v)
			v = tmp
		}
		for i := 0; i < v.NumField(); i++ {
			collectRanges(v.Field(i), out, seen, depth+1)
		}
	case reflect.Slice, reflect.Array:
		if v.Kind() == reflect.Slice && v.Type().Elem().Kind() == reflect.Uint8 {
			return
		}
		for i := 0; i < v.Len(); i++ {
			collectRanges(v.Index(i), out, seen, depth+1)
		}
	case reflect.Map:
		keys := v.MapKeys()
		// deterministic order
		for i := 0; i < len(keys); i++ {
			for j := i + 1; j < len(keys); j++ {
				if fmt.Sprint(keys[j]) < fmt.Sprint(keys[i]) {
					keys[i], keys[j] = keys[j], keys[i]
				}
			}
		}
		for _, k := range keys {
			collectRanges(v.MapIndex(k), out, seen, depth+1)
		}
	}
}

func readable2(f reflect.Value) reflect.Value {
	if f.CanInterface() {
		return f
	}
	if f.CanAddr() {
		return reflect.NewAt(f.Type(), unsafePointerOf(f)).Elem()
	}
	tmp := reflect.New(f.Type()).Elem()
	return tmp
}

// seedsFromHarness extracts the seed strings of /verif/harness/decoder/g_seeds.go and g_json.go (native ones).
func seedsFromHarness() []string {
	var out []string
	re := regexp.MustCompile(`\{"[a-z0-9-]+", ("(?:[^"\\]|\\.)*"), [0-9]\},`)
	for _, f := range []string{"g_seeds.go"} {
		b, err := os.ReadFile(harnessDir + "/decoder/" + f)
		if err != nil {
			continue
		}
		for _, m := range re.FindAllStringSubmatch(string(b), -1) {
			if s, err := strconv.Unquote(m[1]); err == nil {
				out = append(out, s)
			}
		}
	}
	return out
}

func cmdSelftest(args []string) {
	rounds := 10
	if len(args) > 0 {
		if n, err := strconv.Atoi(args[0]); err == nil {
			rounds = n
		}
	}
	seeds, checked, mism := runSelftest(rounds, true)
	fmt.Printf("selftest: %d seeds, %d rounds each, %d positions compared, %d mismatches\n", seeds, rounds, checked, mism)
	if mism > 0 {
		os.Exit(2)
	}
}

func runSelftest(rounds int, verbose bool) (nseeds, checked, mism int) {
	seedN, _ := strconv.Atoi(os.Getenv("VERIF_SEED"))
	rng := rand.New(rand.NewSource(int64(seedN) + 1))
	seeds := seedsFromHarness()
	for _, src := range seeds {
		toks, _ := hclsyntax.LexConfig([]byte(src), "t.tf", hcl.InitialPos)
		f0, diags0 := hclsyntax.ParseConfig([]byte(src), "t.tf", hcl.InitialPos)
		var gaps []gapInfo
		prevEnd := 0
		for _, t := range toks {
			if t.Range.Start.Byte > prevEnd {
				g := src[prevEnd:t.Range.Start.Byte]
				if strings.Trim(g, " \t") == "" {
					gaps = append(gaps, gapInfo{start: prevEnd, end: t.Range.Start.Byte, line: t.Range.Start.Line})
				}
			}
			prevEnd = t.Range.End.Byte
		}
		var slots []int
		if body, ok := f0.Body.(*hclsyntax.Body); ok {
			for _, a := range body.Attributes {
				slots = append(slots, a.SrcRange.Start.Byte)
			}
			for _, b := range body.Blocks {
				slots = append(slots, b.Range().Start.Byte)
			}
		}
		if !diags0.HasErrors() && strings.HasSuffix(src, "\n") {
			slots = append(slots, len(src))
		}
		var r0 []hcl.Range
		collectRanges(reflect.ValueOf(f0.Body), &r0, map[uintptr]bool{}, 0)
		for round := 0; round < rounds; round++ {
			c := &concreteStretch{src: src, toks: toks, gaps: gaps, slotAt: -1}
			c.deltas = make([]int, len(gaps))
			for i := range c.deltas {
				c.deltas[i] = rng.Intn(4)
			}
			if round%2 == 1 && len(slots) > 0 {
				// line slots are used without gap stretching (as the C18 harness does)
				for i := range c.deltas {
					c.deltas[i] = 0
				}
				s := slots[rng.Intn(len(slots))]
				lineStart := s == 0 || src[s-1] == '\n'
				if lineStart {
					c.slotAt = s
					c.slot = []string{"\n", "# c\n", "#x y\n  \n", slotMultiByteLine}[rng.Intn(4)]
				}
			}
			text := c.text()
			f1, _ := hclsyntax.ParseConfig([]byte(text), "t.tf", hcl.InitialPos)
			var r1 []hcl.Range
			collectRanges(reflect.ValueOf(f1.Body), &r1, map[uintptr]bool{}, 0)
			if len(r0) != len(r1) {
				mism++
				fmt.Printf("SELFTEST A-PARSE shape differs: seed %q layout %q: %d vs %d ranges\n", src, text, len(r0), len(r1))
				continue
			}
			wholeFile := func(r hcl.Range) bool { return r.Start.Byte == 0 && r.End.Byte == len(src) }
			for i := range r0 {
				checked++
				ws, we := c.image(r0[i].Start, false), c.image(r0[i].End, r0[i].End.Byte > r0[i].Start.Byte)
				if wholeFile(r0[i]) && c.slotAt == 0 {
					// either the top-level body (start stays) or an item spanning the whole file (start moves)
					if r1[i].Start.Byte == 0 {
						ws = hcl.InitialPos
					}
				}
				if ws != r1[i].Start || we != r1[i].End {
					mism++
					fmt.Printf("SELFTEST A-PARSE mismatch: seed %q layout %q: range %v predicted %v-%v actual %v-%v\n", src, text, r0[i], ws, we, r1[i].Start, r1[i].End)
				}
			}
			// A-LEX
			toks1, _ := hclsyntax.LexConfig([]byte(text), "t.tf", hcl.InitialPos)
			if c.slotAt < 0 {
				if len(toks1) != len(toks) {
					mism++
					fmt.Printf("SELFTEST A-LEX token count differs: seed %q layout %q\n", src, text)
					continue
				}
				for i, t := range toks {
					checked++
					ws := c.image(t.Range.Start, false)
					if ws != toks1[i].Range.Start || t.Type != toks1[i].Type {
						mism++
						fmt.Printf("SELFTEST A-LEX mismatch: seed %q layout %q token %d: predicted %v actual %v\n", src, text, i, ws, toks1[i].Range.Start)
					}
				}
			}
		}
	}
	return len(seeds), checked, mism
}
