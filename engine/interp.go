package main

// The SSA interpreter core. Derived from
// golang.org/x/tools/go/ssa/interp/interp.go (v0.29.0, Copyright 2013 The Go
// Authors, BSD-style licence; see LICENSE.golang): goroutines, channels,
// select and the fake reflect package are removed; symbolic branching,
// obligations, native call-outs and write tracking are added.

import (
	"fmt"
	"go/token"
	"go/types"
	"runtime"
	"slices"
	"strings"

	"golang.org/x/tools/go/ssa"
)

type continuation int

const (
	kNext continuation = iota
	kReturn
	kJump
)

type deferred struct {
	fn    value
	args  []value
	instr *ssa.Defer
	tail  *deferred
}

type frame struct {
	in               *interp
	caller           *frame
	fn               *ssa.Function
	block, prevBlock *ssa.BasicBlock
	env              map[ssa.Value]value
	locals           []value
	defers           *deferred
	result           value
	panicking        bool
	panic            interface{}
	phitemps         []value
	cur              ssa.Instruction
}

type interp struct {
	w           *world
	prog        *ssa.Program
	globals     map[*ssa.Global]*value
	p           *pathCtx
	depth       int
	bufSeq      int
	permuteMaps bool
	permuteMode int
	top         *frame // innermost frame, for positions
	rtErrString types.Type

	// write tracking (freeze.go)
	frozenOn    bool
	frozenCells map[*value]struct{}
	frozenMaps  map[*omap]struct{}
	frozenBufs  map[*byteBuf]struct{}
	globalCells map[*value]struct{} // reachable from package-level state after init
	globalMaps  map[*omap]struct{}
	writes      []writeRec
	globalDirty bool

	funcsRun map[*ssa.Function]int
	fnInfos  map[*ssa.Function]*fnInfo
	stubs    map[string]stubFn
	initDone map[*ssa.Package]bool

	ctxSeq int
	opaque map[string]interface{} // scratch for stubs
}

type stubFn func(in *interp, fr *frame, fn *ssa.Function, args []value) value

func (fr *frame) get(key ssa.Value) value {
	switch key := key.(type) {
	case nil:
		return nil
	case *ssa.Function, *ssa.Builtin:
		return key
	case *ssa.Const:
		return constValue(key)
	case *ssa.Global:
		return fr.in.globalAddr(key)
	}
	if r, ok := fr.env[key]; ok {
		return r
	}
	panic(fmt.Sprintf("get: no value for %T: %v", key, key.Name()))
}

func (in *interp) globalAddr(g *ssa.Global) *value {
	if r, ok := in.globals[g]; ok {
		return r
	}
	// lazily materialise
	var cell value
	if g.Pkg != nil && !in.w.isInterpretedPkg(g.Pkg.Pkg.Path()) {
		if v, ok := in.nativeGlobal(g); ok {
			cell = v
			in.globals[g] = &cell
			return &cell
		}
	}
	cell = zero(mustDeref(g.Type()))
	in.globals[g] = &cell
	return &cell
}

func (in *interp) where() string {
	fr := in.top
	for fr != nil {
		if fr.cur != nil && fr.cur.Pos() != token.NoPos {
			p := in.prog.Fset.Position(fr.cur.Pos())
			return fmt.Sprintf("%s:%d", shortFile(p.Filename), p.Line)
		}
		fr = fr.caller
	}
	return "?"
}

// site returns a line-independent anchor of the innermost hcl-lang function.
func (in *interp) site() string {
	for fr := in.top; fr != nil; fr = fr.caller {
		if fr.fn != nil {
			if pp := pkgPathOfFn(fr.fn); strings.HasPrefix(pp, "github.com/hashicorp/hcl-lang") && !strings.HasPrefix(fr.fn.Name(), "Verif") && !strings.HasPrefix(fr.fn.Name(), "verif") {
				return fr.fn.String()
			}
		}
	}
	if in.top != nil && in.top.fn != nil {
		return in.top.fn.String()
	}
	return "?"
}

func shortFile(f string) string {
	for _, p := range []string{repoDir + "/", "/root/go/pkg/mod/", "/usr/local/go/src/", "/verif/"} {
		if i := strings.Index(f, p); i >= 0 {
			return f[i+len(p):]
		}
	}
	return f
}

func (in *interp) stack() string {
	var b strings.Builder
	n := 0
	for fr := in.top; fr != nil && n < 14; fr = fr.caller {
		pos := ""
		if fr.cur != nil && fr.cur.Pos() != token.NoPos {
			p := in.prog.Fset.Position(fr.cur.Pos())
			pos = fmt.Sprintf(" %s:%d", shortFile(p.Filename), p.Line)
		}
		fmt.Fprintf(&b, "%s%s\n", fr.fn.String(), pos)
		n++
	}
	return b.String()
}

func (in *interp) branch(c *term, what string) bool {
	if c.isConst() {
		return c.b
	}
	return in.p.branch(c, what+"@"+in.where())
}

func (in *interp) oblige(c *term, kind, tag string) {
	in.p.oblige(c, kind, tag, in.site(), in.stack())
}

func (in *interp) runtimeError(msg string) value {
	return iface{t: in.rtErrString, v: strings.TrimPrefix(msg, "runtime error: ")}
}

func (in *interp) nilDeref(msg string) {
	panic(targetPanic{v: in.runtimeError("runtime error: invalid memory address or nil pointer dereference")})
}

// ---------------------------------------------------------------------------

func (fr *frame) runDefer(d *deferred) {
	var ok bool
	defer func() {
		if !ok {
			r := recover()
			if isEnginePanic(r) {
				panic(r)
			}
			fr.panicking = true
			fr.panic = r
		}
	}()
	fr.in.call(fr, d.instr.Pos(), d.fn, d.args)
	ok = true
}

func isEnginePanic(r interface{}) bool {
	switch r.(type) {
	case pathAbort, unsupportedErr, engineErr:
		return true
	case targetPanic:
		return false
	case nil:
		return false
	}
	return true // anything else is a bug of the engine itself
}

type engineErr struct {
	msg   string
	stack string
}

func (fr *frame) runDefers() {
	for d := fr.defers; d != nil; d = d.tail {
		fr.runDefer(d)
	}
	fr.defers = nil
	if fr.panicking {
		panic(fr.panic)
	}
}

func (in *interp) lookupMethod(typ types.Type, meth *types.Func) *ssa.Function {
	return in.prog.LookupMethod(typ, meth.Pkg(), meth.Name())
}

func (in *interp) visitInstr(fr *frame, instr ssa.Instruction) continuation {
	fr.cur = instr
	in.p.steps++
	if in.p.steps > in.p.maxSteps {
		// a path that does not end within the step budget: a candidate for "does not terminate",
		// decided by replaying it natively under a deadline (confirmed only if the native run does
		// not return either); the path itself stays undecided
		if m := in.p.modelNow(); m != nil {
			in.p.recordFailure("nonterm", "C01:query-returns-within-the-step-budget", "step-budget", "budget exhausted in "+fr.fn.String(), m)
		}
		in.p.abort("unwind", fmt.Sprintf("step budget %d exceeded in %s", in.p.maxSteps, fr.fn))
	}
	switch instr := instr.(type) {
	case *ssa.DebugRef:

	case *ssa.UnOp:
		fr.env[instr] = in.unop(instr, fr.get(instr.X))

	case *ssa.BinOp:
		fr.env[instr] = in.binop(instr.Op, instr.X.Type(), fr.get(instr.X), fr.get(instr.Y))

	case *ssa.Call:
		fn, args := in.prepareCall(fr, &instr.Call)
		fr.env[instr] = in.call(fr, instr.Pos(), fn, args)

	case *ssa.ChangeInterface:
		fr.env[instr] = fr.get(instr.X)

	case *ssa.ChangeType:
		fr.env[instr] = fr.get(instr.X)

	case *ssa.Convert:
		fr.env[instr] = in.conv(instr.Type(), instr.X.Type(), fr.get(instr.X))

	case *ssa.SliceToArrayPointer:
		panic(unsupported("SliceToArrayPointer"))

	case *ssa.MakeInterface:
		fr.env[instr] = iface{t: instr.X.Type(), v: fr.get(instr.X)}

	case *ssa.Extract:
		fr.env[instr] = fr.get(instr.Tuple).(tuple)[instr.Index]

	case *ssa.Slice:
		fr.env[instr] = in.slice(instr, fr.get(instr.X), fr.get(instr.Low), fr.get(instr.High), fr.get(instr.Max))

	case *ssa.Return:
		switch len(instr.Results) {
		case 0:
		case 1:
			fr.result = fr.get(instr.Results[0])
		default:
			var res []value
			for _, r := range instr.Results {
				res = append(res, fr.get(r))
			}
			fr.result = tuple(res)
		}
		fr.block = nil
		return kReturn

	case *ssa.RunDefers:
		fr.runDefers()

	case *ssa.Panic:
		panic(targetPanic{v: fr.get(instr.X)})

	case *ssa.Send, *ssa.Go, *ssa.MakeChan, *ssa.Select:
		panic(unsupported(fmt.Sprintf("%T", instr)))

	case *ssa.Store:
		addr := fr.get(instr.Addr)
		switch a := addr.(type) {
		case *value:
			if a == nil {
				in.nilDeref("store through nil pointer")
			}
			in.store(mustDeref(instr.Addr.Type()), a, copyVal(fr.get(instr.Val)))
		case *byteRef:
			in.writeBuf(a.buf, a.idx, tFromCode(intTerm(fr.get(instr.Val))))
		default:
			panic(fmt.Sprintf("store to %T", addr))
		}

	case *ssa.If:
		succ := 1
		switch c := fr.get(instr.Cond).(type) {
		case bool:
			if c {
				succ = 0
			}
		case symBool:
			if in.branch(c.t, "if") {
				succ = 0
			}
		}
		fr.prevBlock, fr.block = fr.block, fr.block.Succs[succ]
		return kJump

	case *ssa.Jump:
		fr.prevBlock, fr.block = fr.block, fr.block.Succs[0]
		return kJump

	case *ssa.Defer:
		fn, args := in.prepareCall(fr, &instr.Call)
		defers := &fr.defers
		if into := fr.get(instr.DeferStack); into != nil {
			defers = into.(**deferred)
		}
		*defers = &deferred{fn: fn, args: args, instr: instr, tail: *defers}

	case *ssa.Alloc:
		var addr *value
		if instr.Heap {
			addr = new(value)
			fr.env[instr] = addr
		} else {
			addr = fr.env[instr].(*value)
		}
		*addr = zero(mustDeref(instr.Type()))

	case *ssa.MakeSlice:
		tElt := instr.Type().Underlying().(*types.Slice).Elem()
		lv, cv := fr.get(instr.Len), fr.get(instr.Cap)
		if isSym(lv) || isSym(cv) {
			if basicKindOf(tElt) == types.Uint8 {
				// zero-filled symbolic-length buffer: content is a fresh string of NULs
				n := intTerm(lv)
				c := intTerm(cv)
				in.oblige(tAnd(tCmp(">=", n, mkInt(0)), tCmp("<=", n, c)), "bounds", "makeslice")
				z := in.p.newVar("zeros", sStr)
				in.p.assume(tEq(tLen(z), c))
				in.p.assume(tInRe(z, `(re.* (str.to_re "\u{0}"))`))
				fr.env[instr] = &symBytes{buf: in.newBuf(z), off: mkInt(0), n: n, c: c}
				break
			}
			panic(unsupported("make of a slice with symbolic length"))
		}
		c := asInt64(cv)
		l := asInt64(lv)
		if l < 0 || c < l || c > 1<<24 {
			in.boundsPanic("makeslice: len out of range")
		}
		slice := make([]value, c)
		for i := range slice {
			slice[i] = zero(tElt)
		}
		fr.env[instr] = slice[:l]

	case *ssa.MakeMap:
		fr.env[instr] = makeMap(instr.Type().Underlying().(*types.Map).Key())

	case *ssa.Range:
		fr.env[instr] = in.rangeIter(fr.get(instr.X), instr.X.Type())

	case *ssa.Next:
		fr.env[instr] = fr.get(instr.Iter).(iter).next(in)

	case *ssa.FieldAddr:
		x := fr.get(instr.X)
		p, ok := x.(*value)
		if !ok {
			panic(unsupported(fmt.Sprintf("field address of %T (%s)", x, instr.X.Type())))
		}
		if p == nil {
			in.nilDeref("field of nil pointer")
		}
		st, ok := (*p).(structure)
		if !ok {
			panic(unsupported(fmt.Sprintf("field address inside opaque %s", instr.X.Type())))
		}
		fr.env[instr] = &st[instr.Field]

	case *ssa.Field:
		x := fr.get(instr.X)
		st, ok := x.(structure)
		if !ok {
			panic(unsupported(fmt.Sprintf("field of opaque %s", instr.X.Type())))
		}
		fr.env[instr] = copyVal(st[instr.Field])

	case *ssa.IndexAddr:
		x := fr.get(instr.X)
		idx := fr.get(instr.Index)
		switch x := x.(type) {
		case []value:
			i := in.pickInt(idx, len(x), "index")
			if i < 0 || i >= len(x) {
				in.boundsPanic(fmt.Sprintf("index out of range [%d] with length %d", i, len(x)))
			}
			fr.env[instr] = &x[i]
		case *symBytes:
			i := intTerm(idx)
			in.checkIndex(i, x.n, "index-bytes")
			fr.env[instr] = &byteRef{buf: x.buf, idx: tAdd(x.off, i)}
		case *value: // *array
			if x == nil {
				in.nilDeref("index of nil array pointer")
			}
			a := (*x).(array)
			i := in.pickInt(idx, len(a), "index")
			if i < 0 || i >= len(a) {
				in.boundsPanic(fmt.Sprintf("index out of range [%d] with length %d", i, len(a)))
			}
			fr.env[instr] = &a[i]
		default:
			panic(fmt.Sprintf("unexpected x type in IndexAddr: %T", x))
		}

	case *ssa.Index:
		x := fr.get(instr.X)
		idx := fr.get(instr.Index)
		switch x := x.(type) {
		case array:
			i := in.pickInt(idx, len(x), "index")
			if i < 0 || i >= len(x) {
				in.boundsPanic(fmt.Sprintf("index out of range [%d] with length %d", i, len(x)))
			}
			fr.env[instr] = copyVal(x[i])
		case string:
			if isSym(idx) {
				i := intTerm(idx)
				in.checkIndex(i, mkInt(int64(len(x))), "index-string")
				fr.env[instr] = in.readByte(mkStr(x), i)
				break
			}
			i := asInt64(idx)
			if i < 0 || i >= int64(len(x)) {
				in.boundsPanic(fmt.Sprintf("index out of range [%d] with length %d", i, len(x)))
			}
			fr.env[instr] = x[i]
		case symStr:
			i := intTerm(idx)
			in.checkIndex(i, tLen(x.t), "index-string")
			fr.env[instr] = in.readByte(x.t, i)
		default:
			panic(fmt.Sprintf("unexpected x type in Index: %T", x))
		}

	case *ssa.Lookup:
		fr.env[instr] = in.lookup(instr, fr.get(instr.X), fr.get(instr.Index))

	case *ssa.MapUpdate:
		m := fr.get(instr.Map).(*omap)
		if m == nil {
			panic(targetPanic{v: in.runtimeError("assignment to entry in nil map")})
		}
		in.noteMapWrite(m)
		in.mapInsert(m, copyVal(fr.get(instr.Key)), copyVal(fr.get(instr.Value)))

	case *ssa.TypeAssert:
		fr.env[instr] = in.typeAssert(instr, fr.get(instr.X).(iface))

	case *ssa.MakeClosure:
		var bindings []value
		for _, binding := range instr.Bindings {
			bindings = append(bindings, fr.get(binding))
		}
		fr.env[instr] = &closure{instr.Fn.(*ssa.Function), bindings}

	case *ssa.Phi:
		panic("unreachable: phi")

	default:
		panic(unsupported(fmt.Sprintf("instruction %T", instr)))
	}
	return kNext
}

func (in *interp) lookup(instr *ssa.Lookup, x, idx value) value {
	switch x := x.(type) {
	case *omap:
		e := in.mapFind(x, idx)
		var v value
		ok := e != nil
		if ok {
			v = copyVal(e.v)
		} else {
			v = zero(instr.X.Type().Underlying().(*types.Map).Elem())
		}
		if instr.CommaOk {
			return tuple{v, ok}
		}
		return v
	case native:
		// opaque native map
		return in.nativeMapLookup(instr, x, idx)
	}
	panic(fmt.Sprintf("unexpected x type in Lookup: %T", x))
}

// prepareCall determines the function value and argument values.
func (in *interp) prepareCall(fr *frame, call *ssa.CallCommon) (fn value, args []value) {
	v := fr.get(call.Value)
	if call.Method == nil {
		fn = v
	} else {
		recv := v.(iface)
		if recv.t == nil {
			in.nilDeref("method invoked on nil interface")
		}
		if nt, ok := recv.t.(*nativeType); ok {
			fn = &nativeMethod{name: call.Method.Name(), t: nt}
		} else if f := in.lookupMethod(recv.t, call.Method); f == nil {
			panic(fmt.Sprintf("method set for dynamic type %v does not contain %s", recv.t, call.Method))
		} else {
			fn = f
		}
		args = append(args, recv.v)
	}
	for _, arg := range call.Args {
		args = append(args, copyVal(fr.get(arg)))
	}
	return
}

func (in *interp) call(caller *frame, callpos token.Pos, fn value, args []value) value {
	switch fn := fn.(type) {
	case *ssa.Function:
		if fn == nil {
			in.nilDeref("call of nil function")
		}
		return in.callSSA(caller, callpos, fn, args, nil)
	case *closure:
		return in.callSSA(caller, callpos, fn.Fn, args, fn.Env)
	case *ssa.Builtin:
		return in.callBuiltin(caller, callpos, fn, args)
	case *nativeFunc:
		return in.callNativeFunc(fn, args)
	case *engineFunc:
		return fn.f(in, args)
	case *nativeMethod:
		return in.callNativeMethodByName(fn, args)
	case native:
		if fn.rv.Kind() == 19 {
			return in.callNativeFunc(&nativeFunc{rv: fn.rv}, args)
		}
	}
	panic(fmt.Sprintf("cannot call %T", fn))
}

const maxDepth = 400

func (in *interp) callSSA(caller *frame, callpos token.Pos, fn *ssa.Function, args []value, env []value) value {
	fr := &frame{in: in, caller: caller, fn: fn}
	if fn.Parent() == nil {
		if r, handled := in.dispatchSpecial(fr, fn, args); handled {
			return r
		}
		if fn.Blocks == nil {
			panic(unsupported("no code for function: " + fn.String()))
		}
	}
	if fn.TypeParams().Len() > 0 && len(fn.TypeArgs()) == 0 {
		panic(unsupported("uninstantiated generic " + fn.String()))
	}
	in.depth++
	if in.depth > maxDepth {
		in.p.abort("unwind", "call depth exceeded in "+fn.String())
	}
	saveTop := in.top
	in.top = fr
	defer func() { in.depth--; in.top = saveTop }()
	if in.funcsRun != nil {
		in.funcsRun[fn]++
	}

	fr.env = make(map[ssa.Value]value, 16)
	fr.block = fn.Blocks[0]
	fr.locals = make([]value, len(fn.Locals))
	for i, l := range fn.Locals {
		fr.locals[i] = zero(mustDeref(l.Type()))
		fr.env[l] = &fr.locals[i]
	}
	for i, p := range fn.Params {
		fr.env[p] = args[i]
	}
	for i, fv := range fn.FreeVars {
		fr.env[fv] = env[i]
	}
	for fr.block != nil {
		in.runFrame(fr)
	}
	return fr.result
}

func (in *interp) runFrame(fr *frame) {
	defer func() {
		if fr.block == nil {
			return // normal return
		}
		r := recover()
		if isEnginePanic(r) {
			if _, isRT := r.(runtime.Error); isRT {
				buf := make([]byte, 1<<14)
				buf = buf[:runtime.Stack(buf, false)]
				panic(engineErr{msg: fmt.Sprint(r), stack: in.stack() + "\n" + string(buf)})
			}
			if s, ok := r.(string); ok {
				panic(engineErr{msg: s, stack: in.stack()})
			}
			if ue, ok := r.(unsupportedErr); ok && ue.stack == "" {
				in.top = fr
				ue.stack = in.stack()
				r = ue
			}
			panic(r)
		}
		in.top = fr
		if tp, ok := r.(targetPanic); ok && tp.site == "" {
			tp.site = in.site()
			tp.stack = in.stack()
			r = tp
		}
		fr.panicking = true
		fr.panic = r
		fr.runDefers()
		fr.block = fr.fn.Recover
	}()

	for {
		nonPhis := executePhis(fr)
		for _, instr := range nonPhis {
			if in.visitInstr(fr, instr) == kReturn {
				return
			}
		}
	}
}

func executePhis(fr *frame) []ssa.Instruction {
	firstNonPhi := -1
	for i, instr := range fr.block.Instrs {
		if _, ok := instr.(*ssa.Phi); !ok {
			firstNonPhi = i
			break
		}
	}
	nonPhis := fr.block.Instrs[firstNonPhi:]
	if firstNonPhi > 0 {
		phis := fr.block.Instrs[:firstNonPhi]
		predIndex := slices.Index(fr.block.Preds, fr.prevBlock)
		fr.phitemps = fr.phitemps[:0]
		for _, phi := range phis {
			phi := phi.(*ssa.Phi)
			fr.phitemps = append(fr.phitemps, fr.get(phi.Edges[predIndex]))
		}
		for i, phi := range phis {
			fr.env[phi.(*ssa.Phi)] = fr.phitemps[i]
		}
	}
	return nonPhis
}

func (in *interp) doRecover(caller *frame) value {
	if caller != nil && !caller.panicking &&
		caller.caller != nil && caller.caller.panicking {
		caller.caller.panicking = false
		p := caller.caller.panic
		caller.caller.panic = nil
		switch p := p.(type) {
		case targetPanic:
			return p.v
		default:
			panic(fmt.Sprintf("unexpected panic type %T in target call to recover()", p))
		}
	}
	return iface{}
}

func pkgPathOfFn(fn *ssa.Function) string {
	if fn.Pkg != nil {
		return fn.Pkg.Pkg.Path()
	}
	if o := fn.Object(); o != nil && o.Pkg() != nil {
		return o.Pkg().Path()
	}
	if org := fn.Origin(); org != nil && org != fn {
		return pkgPathOfFn(org)
	}
	if fn.Parent() != nil {
		return pkgPathOfFn(fn.Parent())
	}
	return ""
}
