package main

import (
	"encoding/json"
	"flag"
	"fmt"
	"os"
	"regexp"
	"runtime"
	"sort"
	"strings"
	"time"
)

func main() {
	if len(os.Args) < 2 {
		fmt.Fprintln(os.Stderr, "usage: gosym run|check|replay ...")
		os.Exit(2)
	}
	switch os.Args[1] {
	case "run":
		cmdRun(os.Args[2:])
	case "check":
		cmdCheck(os.Args[2:])
	case "replay":
		cmdReplay(os.Args[2:])
	case "selftest":
		cmdSelftest(os.Args[2:])
	case "gencopy":
		b, err := generateCopyHarnesses()
		if err != nil {
			fmt.Fprintln(os.Stderr, err)
			os.Exit(2)
		}
		os.Stdout.Write(b)
	default:
		fmt.Fprintln(os.Stderr, "unknown command", os.Args[1])
		os.Exit(2)
	}
}

// cmdRun: development driver — run harnesses matching a regexp and print results.
func cmdRun(args []string) {
	fs := flag.NewFlagSet("run", flag.ExitOnError)
	pat := fs.String("h", ".", "harness name regexp")
	workers := fs.Int("j", runtime.NumCPU(), "workers")
	maxPaths := fs.Int("paths", 20000, "path budget per harness")
	timeout := fs.Int("timeout", 10000, "solver timeout ms")
	maxSec := fs.Int("seconds", 600, "time budget per harness")
	solverName := fs.String("solver", "z3", "z3|z3-new|cvc5")
	verbose := fs.Bool("v", false, "verbose")
	doReplay := fs.Bool("replay", false, "replay candidates natively")
	quiet := fs.Bool("q", false, "print only harnesses with something to report")
	tierFlag := fs.String("tier", "quick", "quick|thorough: which bounds the harnesses and the stretch model use")
	fs.Parse(args)
	w, err := loadWorld(nil)
	if err != nil {
		fmt.Fprintln(os.Stderr, err)
		os.Exit(2)
	}
	fmt.Fprintf(os.Stderr, "loaded in %.1fs, ssa %.1fs\n", w.loadSecs, w.buildSecs)
	currentTier = *tierFlag
	ex, err := newExplorer(w, bounds{MaxPaths: *maxPaths, MaxSteps: 20_000_000, TimeoutMs: *timeout, Workers: *workers, MaxSeconds: *maxSec}, *solverName)
	if err != nil {
		fmt.Fprintln(os.Stderr, err)
		os.Exit(2)
	}
	defer ex.close()
	re := regexp.MustCompile(*pat)
	var hs []harness
	for _, h := range w.allHarnesses() {
		xs, err := ex.expand(h)
		if err != nil {
			fmt.Fprintln(os.Stderr, err)
			os.Exit(2)
		}
		hs = append(hs, xs...)
	}
	var sel []harness
	for _, h := range hs {
		if re.MatchString(h.name) {
			sel = append(sel, h)
		}
	}
	t0 := time.Now()
	results := ex.runMany(sel, func(r *harnessResult) {
		if *quiet && len(r.Failures) == 0 && len(r.Unsupported) == 0 && len(r.EngineErrors) == 0 && len(r.Undis) == 0 && !r.BudgetHit {
			return
		}
		printResult(r, *verbose)
	})
	fmt.Fprintf(os.Stderr, "%d harnesses in %.1fs\n", len(results), time.Since(t0).Seconds())
	for _, res := range results {
		if *doReplay {
			for _, f := range res.Failures {
				ok, out := replayFailure(w, f)
				fmt.Printf("    replay %s: confirmed=%v\n", f.key(), ok)
				if *verbose || !ok {
					fmt.Println(indent(out, "      "))
				}
			}
		}
	}
}

func indent(s, pre string) string {
	return pre + strings.ReplaceAll(strings.TrimRight(s, "\n"), "\n", "\n"+pre)
}

func printResult(res *harnessResult, verbose bool) {
	fmt.Printf("%s: paths=%d %v dec=%d obl=%d (concrete %d) discharged=%d cand=%d undis=%d steps=%d queries=%d (sat %d unsat %d unk %d err %d, %.2fs) modelhits=%d wall=%.2fs budgetHit=%v\n",
		res.Name, res.Paths, res.Status, res.Decisions, res.Obligations, res.Trivial, res.Discharged, res.Candidates, res.Undischarged, res.Steps,
		res.Solver.Queries, res.Solver.Sat, res.Solver.Unsat, res.Solver.Unknown, res.Solver.Errors, res.Solver.Seconds, res.ModelHits+res.IntervalHits, res.Seconds, res.BudgetHit)
	for k, n := range res.Unsupported {
		fmt.Printf("    unsupported x%d: %s\n", n, k)
	}
	for k, n := range res.EngineErrors {
		fmt.Printf("    ENGINE ERROR x%d: %s\n", n, k)
		if verbose {
			fmt.Println(indent(res.engineStacks[k], "        "))
		}
	}
	for k, n := range res.Undis {
		fmt.Printf("    undischarged x%d: %s\n", n, k)
	}
	if verbose {
		for k, n := range res.Notes {
			fmt.Printf("    note x%d: %s\n", n, k)
		}
	}
	for _, f := range res.Failures {
		fmt.Printf("    CANDIDATE %s/%s at %s: %s  model: %s\n", f.Kind, f.Tag, f.Where, f.Msg, modelString(f.Model))
		if verbose {
			fmt.Println(indent(f.Stack, "        "))
		}
	}
	var ws []string
	for k := range res.Witness {
		ws = append(ws, k)
	}
	sort.Strings(ws)
	fmt.Printf("    reached: %v\n", ws)
}

func writeJSON(path string, v interface{}) error {
	b, err := json.MarshalIndent(v, "", " ")
	if err != nil {
		return err
	}
	return os.WriteFile(path, b, 0o644)
}
