package main

// encoding/json at the boundary: an engine-side encoder/decoder driven by the
// go/types struct definitions and tags. MarshalJSON methods (interpreted or
// native) are called; reflection itself is not interpreted. With symbolic
// string leaves the quoting is modelled as "\"" ++ s ++ "\"" (assumption
// recorded: the string needs no escaping).

import (
	"encoding/json"
	"fmt"
	"go/types"
	"reflect"
	"sort"
	"strconv"
	"strings"

	"golang.org/x/tools/go/ssa"
)

func init() {
	stubTable["encoding/json.Marshal"] = stubJSONMarshal
	stubTable["encoding/json.Unmarshal"] = stubJSONUnmarshal
}

type jsonErr struct{ err value }

func stubJSONMarshal(in *interp, fr *frame, fn *ssa.Function, args []value) (res value) {
	in.p.note("stub:encoding/json.Marshal(engine-side encoder)")
	defer func() {
		if r := recover(); r != nil {
			if je, ok := r.(jsonErr); ok {
				res = tuple{[]value(nil), je.err}
				return
			}
			panic(r)
		}
	}()
	a := args[0].(iface)
	t := in.jsonEncode(a, types.NewInterfaceType(nil, nil))
	n := tLen(t)
	var out value
	if t.isConst() {
		bs := make([]value, len(t.s))
		for i := 0; i < len(t.s); i++ {
			bs[i] = t.s[i]
		}
		out = bs
	} else {
		out = &symBytes{buf: in.newBuf(t), off: mkInt(0), n: n, c: n}
	}
	return tuple{out, iface{}}
}

func (in *interp) marshalerOf(T types.Type) *ssa.Function {
	if _, ok := T.(*nativeType); ok {
		return nil
	}
	ms := in.prog.MethodSets.MethodSet(T)
	sel := ms.Lookup(nil, "MarshalJSON")
	if sel == nil {
		return nil
	}
	return in.prog.MethodValue(sel)
}

func structTag(tag, key string) (name string, opts string, ok bool) {
	v, ok := reflect.StructTag(tag).Lookup(key)
	if !ok {
		return "", "", false
	}
	if i := strings.IndexByte(v, ','); i >= 0 {
		return v[:i], v[i+1:], true
	}
	return v, "", true
}

func isEmptyJSON(v value) bool {
	switch x := v.(type) {
	case bool:
		return !x
	case string:
		return x == ""
	case int, int8, int16, int32, int64, uint, uint8, uint16, uint32, uint64, uintptr:
		return intTerm(x).i == 0
	case float32:
		return x == 0
	case float64:
		return x == 0
	case []value:
		return len(x) == 0
	case *omap:
		return x.len() == 0
	case *value:
		return x == nil
	case iface:
		return x.t == nil
	case *symBytes:
		return false
	case native:
		if !x.rv.IsValid() {
			return true
		}
		switch x.rv.Kind() {
		case reflect.Pointer, reflect.Interface, reflect.Map, reflect.Slice:
			return x.rv.IsNil() || ((x.rv.Kind() == reflect.Map || x.rv.Kind() == reflect.Slice) && x.rv.Len() == 0)
		}
	}
	return false
}

func (in *interp) jsonEncode(v value, T types.Type) *term {
	T = types.Unalias(T)
	if ia, ok := v.(iface); ok {
		if _, isI := T.Underlying().(*types.Interface); isI {
			if ia.t == nil {
				return mkStr("null")
			}
			return in.jsonEncode(ia.v, ia.t)
		}
	}
	if f := in.marshalerOf(T); f != nil {
		if p, ok := v.(*value); ok && p == nil {
			return mkStr("null")
		}
		r := in.call(in.top, 0, f, []value{v}).(tuple)
		if e := r[1].(iface); e.t != nil {
			panic(jsonErr{e})
		}
		return anyStrTerm(r[0])
	}
	if n, ok := v.(native); ok {
		b, err := json.Marshal(n.rv.Interface())
		if err != nil {
			panic(jsonErr{in.newErrorValue(err.Error())})
		}
		return mkStr(string(b))
	}
	switch u := T.Underlying().(type) {
	case *types.Basic:
		switch x := v.(type) {
		case bool:
			return mkStr(strconv.FormatBool(x))
		case symBool:
			return tIte(x.t, mkStr("true"), mkStr("false"))
		case string:
			b, _ := json.Marshal(x)
			return mkStr(string(b))
		case symStr:
			in.p.note("assume:json-quoted-symbolic-string-needs-no-escape")
			return tConcat(mkStr(`"`), x.t, mkStr(`"`))
		case symInt:
			return fmtInt(x.t)
		case float32, float64:
			b, _ := json.Marshal(x)
			return mkStr(string(b))
		default:
			return fmtInt(intTerm(x))
		}
	case *types.Pointer:
		p := v.(*value)
		if p == nil {
			return mkStr("null")
		}
		return in.jsonEncode(*p, u.Elem())
	case *types.Struct:
		st := v.(structure)
		parts := []*term{mkStr("{")}
		first := true
		for i := 0; i < u.NumFields(); i++ {
			f := u.Field(i)
			if !f.Exported() {
				continue
			}
			name, opts, ok := structTag(u.Tag(i), "json")
			if ok && name == "-" && opts == "" {
				continue
			}
			if name == "" {
				name = f.Name()
			}
			if strings.Contains(opts, "omitempty") && isEmptyJSON(st[i]) {
				continue
			}
			if f.Embedded() && !ok {
				panic(unsupported("json: embedded struct field"))
			}
			if !first {
				parts = append(parts, mkStr(","))
			}
			first = false
			kb, _ := json.Marshal(name)
			parts = append(parts, mkStr(string(kb)+":"), in.jsonEncode(st[i], f.Type()))
		}
		parts = append(parts, mkStr("}"))
		return tConcat(parts...)
	case *types.Slice:
		if sb, ok := v.(*symBytes); ok {
			_ = sb
			panic(unsupported("json: []byte with symbolic content"))
		}
		sl := v.([]value)
		if sl == nil {
			return mkStr("null")
		}
		if basicKindOf(u.Elem()) == types.Uint8 {
			bs := make([]byte, len(sl))
			for i, e := range sl {
				bs[i] = e.(uint8)
			}
			b, _ := json.Marshal(bs)
			return mkStr(string(b))
		}
		parts := []*term{mkStr("[")}
		for i, e := range sl {
			if i > 0 {
				parts = append(parts, mkStr(","))
			}
			parts = append(parts, in.jsonEncode(e, u.Elem()))
		}
		parts = append(parts, mkStr("]"))
		return tConcat(parts...)
	case *types.Map:
		m := v.(*omap)
		if m == nil {
			return mkStr("null")
		}
		type kv struct {
			k string
			v value
		}
		var kvs []kv
		for _, e := range m.ents {
			if e.deleted {
				continue
			}
			ks, ok := e.k.(string)
			if !ok {
				panic(unsupported("json: map with non-string or symbolic keys"))
			}
			kvs = append(kvs, kv{ks, e.v})
		}
		sort.Slice(kvs, func(i, j int) bool { return kvs[i].k < kvs[j].k })
		parts := []*term{mkStr("{")}
		for i, e := range kvs {
			if i > 0 {
				parts = append(parts, mkStr(","))
			}
			kb, _ := json.Marshal(e.k)
			parts = append(parts, mkStr(string(kb)+":"), in.jsonEncode(e.v, u.Elem()))
		}
		parts = append(parts, mkStr("}"))
		return tConcat(parts...)
	case *types.Interface:
		ia := v.(iface)
		if ia.t == nil {
			return mkStr("null")
		}
		return in.jsonEncode(ia.v, ia.t)
	}
	panic(unsupported(fmt.Sprintf("json: encoding of %s", T)))
}

// ---------------------------------------------------------------------------

func stubJSONUnmarshal(in *interp, fr *frame, fn *ssa.Function, args []value) value {
	in.p.note("stub:encoding/json.Unmarshal(engine-side decoder)")
	data := anyStrTerm(args[0])
	if !data.isConst() {
		panic(unsupported("json.Unmarshal of symbolic bytes"))
	}
	tgt := args[1].(iface)
	pt, ok := tgt.t.Underlying().(*types.Pointer)
	if !ok || tgt.v.(*value) == nil {
		return in.newErrorValue("json: Unmarshal(non-pointer)")
	}
	var raw interface{}
	dec := json.NewDecoder(strings.NewReader(data.s))
	dec.UseNumber()
	if err := dec.Decode(&raw); err != nil {
		return in.newErrorValue(err.Error())
	}
	cell := tgt.v.(*value)
	nv, err := in.jsonDecode(raw, pt.Elem(), *cell)
	if err != nil {
		return in.newErrorValue(err.Error())
	}
	in.store(pt.Elem(), cell, nv)
	return iface{}
}

func (in *interp) jsonDecode(raw interface{}, T types.Type, old value) (value, error) {
	T = types.Unalias(T)
	if raw == nil {
		return old, nil
	}
	if _, ok := old.(native); ok {
		// opaque native target: the real decoder
		n := old.(native)
		b, _ := json.Marshal(raw)
		p := reflect.New(n.rv.Type())
		p.Elem().Set(n.rv)
		if err := json.Unmarshal(b, p.Interface()); err != nil {
			return nil, err
		}
		return native{p.Elem()}, nil
	}
	switch u := T.Underlying().(type) {
	case *types.Basic:
		switch {
		case u.Info()&types.IsString != 0:
			s, ok := raw.(string)
			if !ok {
				return nil, fmt.Errorf("json: cannot unmarshal %T into Go value of type %s", raw, T)
			}
			return s, nil
		case u.Info()&types.IsBoolean != 0:
			b, ok := raw.(bool)
			if !ok {
				return nil, fmt.Errorf("json: cannot unmarshal %T into Go value of type %s", raw, T)
			}
			return b, nil
		case u.Info()&types.IsInteger != 0:
			n, ok := raw.(json.Number)
			if !ok {
				return nil, fmt.Errorf("json: cannot unmarshal %T into Go value of type %s", raw, T)
			}
			i, err := n.Int64()
			if err != nil {
				return nil, err
			}
			return concreteInt(i, u.Kind()), nil
		}
	case *types.Struct:
		obj, ok := raw.(map[string]interface{})
		if !ok {
			return nil, fmt.Errorf("json: cannot unmarshal %T into Go value of type %s", raw, T)
		}
		st := copyVal(old).(structure)
		for k, rv := range obj {
			for i := 0; i < u.NumFields(); i++ {
				f := u.Field(i)
				if !f.Exported() {
					continue
				}
				name, _, ok := structTag(u.Tag(i), "json")
				if !ok || name == "" {
					name = f.Name()
				}
				if name == k || strings.EqualFold(name, k) {
					nv, err := in.jsonDecode(rv, f.Type(), st[i])
					if err != nil {
						return nil, err
					}
					st[i] = nv
					break
				}
			}
		}
		return st, nil
	case *types.Slice:
		arr, ok := raw.([]interface{})
		if !ok {
			return nil, fmt.Errorf("json: cannot unmarshal %T into Go value of type %s", raw, T)
		}
		out := make([]value, len(arr))
		for i, e := range arr {
			nv, err := in.jsonDecode(e, u.Elem(), zero(u.Elem()))
			if err != nil {
				return nil, err
			}
			out[i] = nv
		}
		return out, nil
	}
	return nil, fmt.Errorf("json: unsupported target type %s", T)
}
