package main

import (
	"reflect"
	"unsafe"
)

func unsafePointerOf(f reflect.Value) unsafe.Pointer { return unsafe.Pointer(f.UnsafeAddr()) }
