package main

// Seed-and-stretch (DESIGN.md §4.2): parse a concrete seed natively with the
// real HCL parser, import the AST into the interpreter's heap, and make the
// white-space layout symbolic: every blank run between two tokens gets a
// symbolic number of extra blanks; every position of the AST is mapped
// accordingly; the file's bytes become a String term; the cursor is any
// position of the stretched file.

import (
	"fmt"
	"go/types"
	"reflect"
	"sort"
	"strings"
	"unsafe"

	"github.com/apparentlymart/go-textseg/v15/textseg"
	"github.com/hashicorp/hcl/v2"
	"github.com/hashicorp/hcl/v2/hclsyntax"
	hcljson "github.com/hashicorp/hcl/v2/json"
	"golang.org/x/tools/go/ssa"
)

func init() {
	extraIntrinsics["verifParseHCL"] = intrParseHCL
	extraIntrinsics["verifStretch"] = intrStretch
	extraIntrinsics["verifAnyPos"] = intrAnyPos
	extraIntrinsics["verifCursorTag"] = func(in *interp, fr *frame, fn *ssa.Function, args []value) value {
		if s, ok := in.opaque["cursor-tag"].(string); ok && in.opaque["cursor-tag-path"] == in.p {
			return s
		}
		return ""
	}
	extraIntrinsics["verifRealPos"] = intrRealPos
	extraIntrinsics["verifImagePos"] = intrImagePos
	extraIntrinsics["verifRealRange"] = intrRealRange
	extraIntrinsics["verifFileLen"] = intrFileLen
	extraIntrinsics["verifBound"] = intrBound
	extraIntrinsics["verifBlankBetween"] = intrBlankBetween
	stubTable["github.com/hashicorp/hcl/v2/hclsyntax.LexConfig"] = stubLexConfig
}

// the concrete multi-byte comment line of slot variant 3 (mirrored in support_parse.go.tmpl)
const slotMultiByteLine = "# \u00e9\u2713 \u00fc\n"

type gapInfo struct {
	start, end int // seed byte offsets of the blank run
	line       int // seed line
	delta      *term
	extra      *term
}

type lineSlot struct {
	at    int   // seed byte offset of a line start where whole lines may be inserted
	line  int   // seed line number of that line
	k     *term // number of inserted lines
	bytes *term // total bytes inserted (including newlines)
	text  *term
}

type stretchState struct {
	src      string
	filename string
	json     bool
	toks     hclsyntax.Tokens
	gaps     []gapInfo
	slots    []lineSlot
	bounds   map[int]bool // seed offsets that are token boundaries
	buf      *byteBuf
	total    *term
	D        int
	lineOf   []int // seed line start offsets
}

func (in *interp) hclFileType() types.Type {
	return types.NewPointer(in.w.typesPkg("github.com/hashicorp/hcl/v2").Scope().Lookup("File").Type())
}

func intrParseHCL(in *interp, fr *frame, fn *ssa.Function, args []value) value {
	src, ok1 := args[0].(string)
	name, ok2 := args[1].(string)
	if !ok1 || !ok2 {
		panic(unsupported("verifParseHCL needs concrete arguments"))
	}
	var f *hcl.File
	if strings.HasSuffix(name, ".json") {
		f, _ = hcljson.Parse([]byte(src), name)
	} else {
		f, _ = hclsyntax.ParseConfig([]byte(src), name, hcl.InitialPos)
	}
	m := in.newMarsh()
	return m.fromNative(reflect.ValueOf(f), in.hclFileType())
}

func intrBound(in *interp, fr *frame, fn *ssa.Function, args []value) value {
	if currentTier == "thorough" {
		return int(asInt64(args[2]))
	}
	return int(asInt64(args[1]))
}

func (in *interp) stretchStates() map[string]*stretchState {
	m, ok := in.opaque["stretch"].(map[string]*stretchState)
	if !ok || in.opaque["stretch-path"] != in.p {
		m = map[string]*stretchState{}
		in.opaque["stretch"] = m
		in.opaque["stretch-path"] = in.p
	}
	return m
}

// scanTokens returns the token list used to find the gaps of a seed.
func scanTokens(src, name string, isJSON bool) hclsyntax.Tokens {
	if !isJSON {
		toks, _ := hclsyntax.LexConfig([]byte(src), name, hcl.InitialPos)
		return toks
	}
	// JSON: a minimal scanner producing one token per JSON token (strings,
	// punctuation, literals); blanks between them are the gaps.
	var toks hclsyntax.Tokens
	pos := hcl.InitialPos
	adv := func(n int) hcl.Pos {
		p := pos
		for i := 0; i < n; i++ {
			if src[p.Byte] == '\n' {
				p.Line++
				p.Column = 1
			} else if src[p.Byte]&0xC0 != 0x80 {
				p.Column++
			}
			p.Byte++
		}
		return p
	}
	for pos.Byte < len(src) {
		c := src[pos.Byte]
		n := 1
		typ := hclsyntax.TokenIdent
		switch {
		case c == ' ' || c == '\t' || c == '\r':
			pos = adv(1)
			continue
		case c == '\n':
			typ = hclsyntax.TokenNewline
		case c == '"':
			n = 1
			for pos.Byte+n < len(src) && src[pos.Byte+n] != '"' {
				if src[pos.Byte+n] == '\\' {
					n++
				}
				n++
			}
			n++
			if pos.Byte+n > len(src) {
				n = len(src) - pos.Byte
			}
			typ = hclsyntax.TokenQuotedLit
		case strings.IndexByte("{}[],:", c) >= 0:
			typ = hclsyntax.TokenComma
		default:
			for pos.Byte+n < len(src) && strings.IndexByte(" \t\r\n{}[],:\"", src[pos.Byte+n]) < 0 {
				n++
			}
		}
		end := adv(n)
		toks = append(toks, hclsyntax.Token{Type: typ, Bytes: []byte(src[pos.Byte:end.Byte]), Range: hcl.Range{Filename: name, Start: pos, End: end}})
		pos = end
	}
	toks = append(toks, hclsyntax.Token{Type: hclsyntax.TokenEOF, Range: hcl.Range{Filename: name, Start: pos, End: pos}})
	return toks
}

// intrStretch: verifStretch(src, filename string, D int, slots int) *hcl.File
func intrStretch(in *interp, fr *frame, fn *ssa.Function, args []value) value {
	src, ok1 := args[0].(string)
	name, ok2 := args[1].(string)
	if !ok1 || !ok2 {
		panic(unsupported("verifStretch needs concrete arguments"))
	}
	D := int(asInt64(args[2]))
	nslots := int(asInt64(args[3]))
	isJSON := strings.HasSuffix(name, ".json")
	st := &stretchState{src: src, filename: name, json: isJSON, D: D, bounds: map[int]bool{}}
	st.toks = scanTokens(src, name, isJSON)
	st.lineOf = []int{0}
	for i := 0; i < len(src); i++ {
		if src[i] == '\n' {
			st.lineOf = append(st.lineOf, i+1)
		}
	}
	p := in.p
	tag := fmt.Sprintf("f%d.", len(in.stretchStates()))
	// gaps
	prevEnd := 0
	for _, t := range st.toks {
		st.bounds[t.Range.Start.Byte] = true
		st.bounds[t.Range.End.Byte] = true
		if t.Range.Start.Byte > prevEnd {
			g := src[prevEnd:t.Range.Start.Byte]
			if strings.Trim(g, " \t") == "" && D > 0 {
				gi := gapInfo{start: prevEnd, end: t.Range.Start.Byte, line: t.Range.Start.Line}
				idx := len(st.gaps)
				gi.delta = p.newVar(fmt.Sprintf("%sgap%d", tag, idx), sInt)
				p.assume(tAnd(tCmp(">=", gi.delta, mkInt(0)), tCmp("<=", gi.delta, mkInt(int64(D)))))
				gi.extra = p.newVar(fmt.Sprintf("%sgapx%d", tag, idx), sStr)
				p.assume(tEq(tLen(gi.extra), gi.delta))
				p.assume(tInRe(gi.extra, `(re.* (str.to_re " "))`))
				in.uniformVars()[gi.extra.s] = ' '
				st.gaps = append(st.gaps, gi)
			}
			st.bounds[prevEnd] = true
		}
		prevEnd = t.Range.End.Byte
	}
	// total extra blanks bound (stated bound: at most T extra blanks over all gaps)
	if len(st.gaps) > 1 {
		T := 2
		if currentTier == "thorough" {
			T = 4
		}
		if v, ok := in.opaque["stretch-total"].(int); ok {
			T = v
		}
		sum := mkInt(0)
		for _, g := range st.gaps {
			sum = tAdd(sum, g.delta)
		}
		p.assume(tCmp("<=", sum, mkInt(int64(T))))
		p.note(fmt.Sprintf("bound:total-extra-blanks<=%d", T))
	}
	// line slots: before each top-level item and at end of file
	if nslots > 0 {
		var starts []int
		eofSlot := true
		if !isJSON {
			if f, diags := hclsyntax.ParseConfig([]byte(src), name, hcl.InitialPos); f != nil {
				// on a file with syntax errors the parser's recovery ranges extend to the
				// end of the file: lines appended there are not "after the last item"
				eofSlot = !diags.HasErrors()
				if body, ok := f.Body.(*hclsyntax.Body); ok {
					for _, a := range body.Attributes {
						starts = append(starts, a.SrcRange.Start.Byte)
					}
					for _, b := range body.Blocks {
						starts = append(starts, b.Range().Start.Byte)
					}
				}
			}
		}
		if eofSlot {
			starts = append(starts, len(src))
		}
		sort.Ints(starts)
		for _, s := range starts {
			// only line starts qualify
			ls := -1
			for li, off := range st.lineOf {
				if off == s {
					ls = li + 1
				}
			}
			if ls < 0 {
				continue
			}
			if s == len(src) && len(src) > 0 && src[len(src)-1] != '\n' {
				continue
			}
			if len(st.slots) >= nslots {
				break
			}
			sl := lineSlot{at: s, line: ls, k: mkInt(0), bytes: mkInt(0), text: mkStr("")}
			st.slots = append(st.slots, sl)
		}
	}
	// at most one slot receives inserted lines per path: none, one blank line,
	// one comment line, or a comment line followed by a blank line
	if len(st.slots) > 0 {
		c := p.choose(1+4*len(st.slots), "slot-variant")
		p.choices[p.freshName("choice:slot-variant")] = c
		if c > 0 {
			si, variant := (c-1)/4, (c-1)%4
			sl := &st.slots[si]
			blank := func(n string) *term {
				v := p.newVar(fmt.Sprintf("%sslot%d.%s", tag, si, n), sStr)
				p.assume(tCmp("<=", tLen(v), mkInt(4)))
				p.assume(tInRe(v, `(re.* (str.to_re " "))`))
				in.uniformVars()[v.s] = ' '
				return v
			}
			comment := func(n string) *term {
				v := p.newVar(fmt.Sprintf("%sslot%d.%s", tag, si, n), sStr)
				p.assume(tCmp("<=", tLen(v), mkInt(6)))
				// comment text: printable ASCII and tabs (multi-byte comment text is outside the bound:
				// the byte-scanning code would have to decode symbolic UTF-8)
				p.assume(tInRe(v, "(re.* (re.union (re.range \" \" \"~\") (str.to_re \"\\u{9}\")))"))
				return v
			}
			var parts []*term
			switch variant {
			case 0:
				parts = []*term{blank("b0"), mkStr("\n")}
				sl.k = mkInt(1)
			case 1:
				parts = []*term{mkStr("#"), comment("c0"), mkStr("\n")}
				sl.k = mkInt(1)
			case 2:
				parts = []*term{mkStr("#"), comment("c0"), mkStr("\n"), blank("b1"), mkStr("\n")}
				sl.k = mkInt(2)
			case 3:
				// a comment line with (concrete) multi-byte text: bytes and characters differ before the item
				parts = []*term{mkStr(slotMultiByteLine)}
				sl.k = mkInt(1)
			}
			sl.text = tConcat(parts...)
			sl.bytes = tLen(sl.text)
		}
	}
	// file content
	var pieces []*term
	cut := map[int][]*term{} // insertions at seed offsets (after the original text up to there)
	for _, g := range st.gaps {
		cut[g.end] = append(cut[g.end], g.extra)
	}
	slotAt := map[int]*term{}
	for _, s := range st.slots {
		slotAt[s.at] = s.text
	}
	var offs []int
	seen := map[int]bool{}
	for o := range cut {
		if !seen[o] {
			seen[o] = true
			offs = append(offs, o)
		}
	}
	for o := range slotAt {
		if !seen[o] {
			seen[o] = true
			offs = append(offs, o)
		}
	}
	sort.Ints(offs)
	last := 0
	for _, o := range offs {
		// a line slot at offset o inserts before the gap-extra of a gap ending at o? A
		// slot is at a line start, a gap ends at a token start: if both coincide the
		// slot text (whole lines) comes first, then the original blanks... the gap
		// starts at the line start too, so: slot text, original gap, extra.
		if t, ok := slotAt[o]; ok {
			// find whether a gap starts exactly here
			gapStartsHere := false
			for _, g := range st.gaps {
				if g.start == o {
					gapStartsHere = true
				}
			}
			_ = gapStartsHere
			pieces = append(pieces, mkStr(src[last:o]), t)
			last = o
		}
		if ex, ok := cut[o]; ok {
			pieces = append(pieces, mkStr(src[last:o]))
			pieces = append(pieces, ex...)
			last = o
		}
	}
	pieces = append(pieces, mkStr(src[last:]))
	content := tConcat(pieces...)
	st.buf = in.newBuf(content)
	st.total = tLen(content)
	in.stretchStates()[name] = st

	var f *hcl.File
	if isJSON {
		f, _ = hcljson.Parse([]byte(src), name)
	} else {
		f, _ = hclsyntax.ParseConfig([]byte(src), name, hcl.InitialPos)
	}
	m := in.newMarsh()
	m.hook = in.stretchHook
	return m.fromNative(reflect.ValueOf(f), in.hclFileType())
}

// image maps a seed position (on a token boundary) to its stretched position.
func (st *stretchState) image(pos hcl.Pos) (line, col, byt *term) { return st.imageE(pos, false) }

// imageE: isEnd says the position is the end of a range; an end that sits at a
// line start belongs to the preceding line and is not moved by lines inserted there
// (except at end of file, where the enclosing body ends after the inserted lines).
func (st *stretchState) imageE(pos hcl.Pos, isEnd bool) (line, col, byt *term) {
	b := pos.Byte
	byteShift := mkInt(0)
	colShift := mkInt(0)
	lineShift := mkInt(0)
	for _, g := range st.gaps {
		if g.end <= b {
			byteShift = tAdd(byteShift, g.delta)
			if g.line == pos.Line {
				colShift = tAdd(colShift, g.delta)
			}
		}
	}
	for _, s := range st.slots {
		if s.at < b || (s.at == b && (!isEnd || b == len(st.src))) {
			// positions at the slot offset itself belong to the item that follows: they move
			byteShift = tAdd(byteShift, s.bytes)
			lineShift = tAdd(lineShift, s.k)
		}
	}
	return tAdd(mkInt(int64(pos.Line)), lineShift), tAdd(mkInt(int64(pos.Column)), colShift), tAdd(mkInt(int64(b)), byteShift)
}

func (in *interp) posValue(line, col, byt *term) value {
	return structure{intVal(line, types.Int), intVal(col, types.Int), intVal(byt, types.Int)}
}

func (in *interp) stretchHook(m *marsh, rv reflect.Value, T types.Type) (value, bool) {
	n, ok := T.(*types.Named)
	if !ok {
		if sl, ok := T.(*types.Slice); ok && basicKindOf(sl.Elem()) == types.Uint8 && rv.Kind() == reflect.Slice && rv.Type().Elem().Kind() == reflect.Uint8 {
			// the file's bytes
			for _, st := range in.stretchStates() {
				if rv.Len() == len(st.src) && string(rv.Bytes()) == st.src && len(st.src) > 0 {
					return &symBytes{buf: st.buf, off: mkInt(0), n: st.total, c: st.total}, true
				}
			}
		}
		return nil, false
	}
	if n.Obj().Pkg() != nil && n.Obj().Pkg().Path() == "github.com/hashicorp/hcl/v2/hclsyntax" && n.Obj().Name() == "Body" && rv.Kind() == reflect.Struct {
		// the top-level body spans the whole file: its start does not move when
		// lines are inserted before the first item
		u := n.Underlying().(*types.Struct)
		if !rv.CanAddr() {
			tmp := reflect.New(rv.Type()).Elem()
			tmp.Set(rv)
			rv = tmp
		}
		out := make(structure, u.NumFields())
		for i := 0; i < u.NumFields(); i++ {
			f := rv.Field(i)
			if !f.CanInterface() {
				f = reflect.NewAt(f.Type(), unsafe.Pointer(f.UnsafeAddr())).Elem()
			}
			if u.Field(i).Name() == "SrcRange" {
				r := f.Interface().(hcl.Range)
				if st := in.stretchStates()[r.Filename]; st != nil && r.Start.Byte == 0 && r.End.Byte == len(st.src) && len(st.src) > 0 {
					out[i] = structure{r.Filename, structure{r.Start.Line, r.Start.Column, r.Start.Byte}, in.stretchPosE(st, r.End, true)}
					continue
				}
			}
			out[i] = m.fromNative(f, u.Field(i).Type())
		}
		return out, true
	}
	if n.Obj().Pkg() == nil || n.Obj().Pkg().Path() != "github.com/hashicorp/hcl/v2" {
		return nil, false
	}
	switch n.Obj().Name() {
	case "Range":
		r := rv.Interface().(hcl.Range)
		st := in.stretchStates()[r.Filename]
		if st == nil {
			return nil, false
		}
		return structure{r.Filename, in.stretchPos(st, r.Start), in.stretchPosE(st, r.End, r.End.Byte > r.Start.Byte)}, true
	case "Pos":
		p := rv.Interface().(hcl.Pos)
		states := in.stretchStates()
		if len(states) != 1 {
			return nil, false
		}
		for _, st := range states {
			return in.stretchPos(st, p), true
		}
	}
	return nil, false
}

func (in *interp) stretchPos(st *stretchState, p hcl.Pos) value { return in.stretchPosE(st, p, false) }

func (in *interp) stretchPosE(st *stretchState, p hcl.Pos, isEnd bool) value {
	if p.Line == 0 && p.Column == 0 && p.Byte == 0 {
		return structure{0, 0, 0}
	}
	if !st.bounds[p.Byte] && p.Byte != len(st.src) {
		// not on a token boundary: inside a token. Positions inside tokens are
		// fixed relative to the token start.
		for _, t := range st.toks {
			if t.Range.Start.Byte < p.Byte && p.Byte < t.Range.End.Byte {
				l, c, b := st.image(t.Range.Start)
				dl := p.Line - t.Range.Start.Line
				if dl == 0 {
					return in.posValue(l, tAdd(c, mkInt(int64(p.Column-t.Range.Start.Column))), tAdd(b, mkInt(int64(p.Byte-t.Range.Start.Byte))))
				}
				return in.posValue(tAdd(l, mkInt(int64(dl))), mkInt(int64(p.Column)), tAdd(b, mkInt(int64(p.Byte-t.Range.Start.Byte))))
			}
		}
		// inside a blank run: extra blanks are inserted at the end of the run, so the
		// position keeps its distance from the start of the run
		start := p.Byte
		for start > 0 && (st.src[start-1] == ' ' || st.src[start-1] == '\t') {
			start--
		}
		if start < p.Byte {
			sp := hcl.Pos{Line: p.Line, Column: p.Column - (p.Byte - start), Byte: start}
			l, c, b := st.imageE(sp, false)
			return in.posValue(l, tAdd(c, mkInt(int64(p.Byte-start))), tAdd(b, mkInt(int64(p.Byte-start))))
		}
		panic(unsupported(fmt.Sprintf("A-BOUNDARY: seed position %d is neither on a token boundary nor inside a token or blank run", p.Byte)))
	}
	return in.posValue(st.imageE(p, isEnd))
}

func (in *interp) theStretch() *stretchState {
	states := in.stretchStates()
	if len(states) == 0 {
		panic(unsupported("no stretched file"))
	}
	// the first one created
	var best *stretchState
	for _, st := range states {
		if best == nil || st.buf.id < best.buf.id {
			best = st
		}
	}
	return best
}

func (in *interp) stretchByName(v value) *stretchState {
	name, _ := v.(string)
	st := in.stretchStates()[name]
	if st == nil {
		panic(unsupported("no stretched file " + name))
	}
	return st
}

// region enumeration -------------------------------------------------------

type region struct {
	// positions Start + o for 0 <= o <= n where n = width (+ delta)
	start  hcl.Pos // seed position of the region start (a token boundary)
	width  int
	delta  *term     // extra symbolic width (gaps) or nil
	points []hcl.Pos // if non-nil: only these concrete seed positions (multi-byte / multi-line tokens)
	what   string
}

func (st *stretchState) regions() []region {
	var rs []region
	prevEnd := hcl.InitialPos
	gi := 0
	for _, t := range st.toks {
		if t.Range.Start.Byte > prevEnd.Byte {
			r := region{start: prevEnd, width: t.Range.Start.Byte - prevEnd.Byte, what: "gap"}
			for gi < len(st.gaps) && st.gaps[gi].end < t.Range.Start.Byte {
				gi++
			}
			if gi < len(st.gaps) && st.gaps[gi].end == t.Range.Start.Byte {
				r.delta = st.gaps[gi].delta
			}
			rs = append(rs, r)
		}
		text := string(t.Bytes)
		if len(text) > 0 {
			r := region{start: t.Range.Start, width: len(text), what: "token " + t.Type.String()}
			simple := true
			for i := 0; i < len(text); i++ {
				if text[i] >= 0x80 || text[i] == '\n' {
					simple = false
				}
			}
			if text == "\n" {
				r.width = 0 // the position after the newline is the start of the next line
				simple = true
			}
			if !simple {
				r.points = graphemePositions(text, t.Range.Start)
			}
			rs = append(rs, r)
		}
		prevEnd = t.Range.End
	}
	// end of file
	rs = append(rs, region{start: prevEnd, width: 0, what: "eof"})
	return rs
}

func graphemePositions(text string, start hcl.Pos) []hcl.Pos {
	var out []hcl.Pos
	pos := start
	out = append(out, pos)
	b := []byte(text)
	for len(b) > 0 {
		adv, seq, _ := textseg.ScanGraphemeClusters(b, true)
		if adv == 0 {
			break
		}
		if (len(seq) == 1 && seq[0] == '\n') || (len(seq) == 2 && seq[0] == '\r' && seq[1] == '\n') {
			pos.Line++
			pos.Column = 1
		} else {
			pos.Column++
		}
		pos.Byte += adv
		b = b[adv:]
		out = append(out, pos)
	}
	return out
}

// intrAnyPos: verifAnyPos(filename string) hcl.Pos — any position of the stretched file.
func intrAnyPos(in *interp, fr *frame, fn *ssa.Function, args []value) value {
	st := in.stretchByName(args[0])
	rs := st.regions()
	p := in.p
	ri := p.choose(len(rs), "cursor-region")
	p.choices[p.freshName("choice:cursor-region")] = ri
	r := rs[ri]
	var line, col, byt *term
	if r.points != nil {
		pi := p.choose(len(r.points), "cursor-point")
		p.choices[p.freshName("choice:cursor-point")] = pi
		pt := r.points[pi]
		l0, c0, b0 := st.image(r.start)
		dl := pt.Line - r.start.Line
		byt = tAdd(b0, mkInt(int64(pt.Byte-r.start.Byte)))
		if dl == 0 {
			line, col = l0, tAdd(c0, mkInt(int64(pt.Column-r.start.Column)))
		} else {
			line, col = tAdd(l0, mkInt(int64(dl))), mkInt(int64(pt.Column))
		}
	} else {
		l0, c0, b0 := st.image(r.start)
		o := p.newVar("cursor.off", sInt)
		w := mkInt(int64(r.width))
		if r.delta != nil {
			w = tAdd(w, r.delta)
		}
		p.assume(tAnd(tCmp(">=", o, mkInt(0)), tCmp("<=", o, w)))
		line, col, byt = l0, tAdd(c0, o), tAdd(b0, o)
	}
	cb := p.newVar("cursor.byte", sInt)
	p.assume(tEq(cb, byt))
	p.note("cursor-region:" + r.what)
	in.opaque["cursor-tag"] = fmt.Sprintf("@r%d", ri)
	in.opaque["cursor-tag-path"] = in.p
	return in.posValue(line, col, cb)
}

func posTerms(v value) (line, col, byt *term) {
	s := v.(structure)
	return intTerm(s[0]), intTerm(s[1]), intTerm(s[2])
}

// realPos: the Bool term "pos is a position of the stretched file".
func (st *stretchState) realPos(line, col, byt *term) *term {
	var alts []*term
	for _, r := range st.regions() {
		l0, c0, b0 := st.image(r.start)
		if r.points != nil {
			for _, pt := range r.points {
				dl := pt.Line - r.start.Line
				bb := tAdd(b0, mkInt(int64(pt.Byte-r.start.Byte)))
				if dl == 0 {
					alts = append(alts, tAnd(tEq(byt, bb), tEq(line, l0), tEq(col, tAdd(c0, mkInt(int64(pt.Column-r.start.Column))))))
				} else {
					alts = append(alts, tAnd(tEq(byt, bb), tEq(line, tAdd(l0, mkInt(int64(dl)))), tEq(col, mkInt(int64(pt.Column)))))
				}
			}
			continue
		}
		w := mkInt(int64(r.width))
		if r.delta != nil {
			w = tAdd(w, r.delta)
		}
		o := tSub(byt, b0)
		alts = append(alts, tAnd(tCmp(">=", o, mkInt(0)), tCmp("<=", o, w), tEq(line, l0), tEq(tSub(col, c0), o)))
	}
	// positions inside inserted lines (line slots) are not produced by any
	// query today; they would be reported as not real, which is conservative
	// only if a query legitimately returns one (then: unconfirmed on replay).
	return tOr(alts...)
}

func intrRealPos(in *interp, fr *frame, fn *ssa.Function, args []value) value {
	st := in.stretchByName(args[0])
	l, c, b := posTerms(args[1])
	return boolVal(st.realPos(l, c, b))
}

// verifRealRange(filename string, r hcl.Range) bool
func intrRealRange(in *interp, fr *frame, fn *ssa.Function, args []value) value {
	st := in.stretchByName(args[0])
	r := args[1].(structure)
	fnTerm := tEq(strTerm(r[0]), mkStr(st.filename))
	sl, sc, sb := posTerms(r[1])
	el, ec, eb := posTerms(r[2])
	return boolVal(tAnd(fnTerm, st.realPos(sl, sc, sb), st.realPos(el, ec, eb), tCmp("<=", sb, eb)))
}

func intrFileLen(in *interp, fr *frame, fn *ssa.Function, args []value) value {
	st := in.stretchByName(args[0])
	return intVal(st.total, types.Int)
}

// verifBlankBetween(filename string, from, to int) bool: file[from:to] consists of blanks only (from<=to assumed by caller)
func intrBlankBetween(in *interp, fr *frame, fn *ssa.Function, args []value) value {
	st := in.stretchByName(args[0])
	from, to := intTerm(args[1]), intTerm(args[2])
	sub := tSubstr(st.buf.s, from, tSub(to, from))
	return boolVal(tInRe(sub, "(re.* "+reClass(" \\t")+")"))
}

// lexSubSlice models LexConfig on file[off:off+n] with an arbitrary start position (assumption
// A-LEX-SUB): the slice must start inside the blank run before a seed token (or at the token) and
// end after a seed token (blanks or inserted lines may follow); the seed tokens in between are
// returned, positioned as a lexer that counts from the given start position would position them.
// That the tokens of the piece do not depend on their context is checked natively on the seed.
func (in *interp) lexSubSlice(st *stretchState, sb *symBytes, start structure) value {
	off, n := sb.off, sb.n
	end := tAdd(off, n)
	L0, C0, B0 := intTerm(start[0]), intTerm(start[1]), intTerm(start[2])
	type anchor struct{ lo, at *term }
	anchors := make([]anchor, len(st.toks))
	prevEnd := hcl.InitialPos
	for i, t := range st.toks {
		_, _, at := st.image(t.Range.Start)
		// the blank run before the token: seed blanks plus the gap's extra blanks
		run := mkInt(int64(t.Range.Start.Byte - prevEnd.Byte))
		for _, g := range st.gaps {
			if g.end == t.Range.Start.Byte {
				run = tAdd(run, g.delta)
			}
		}
		anchors[i] = anchor{tSub(at, run), at}
		prevEnd = t.Range.End
	}
	first := -1
	for i := range st.toks {
		if in.branch(tAnd(tCmp("<=", anchors[i].lo, off), tCmp("<=", off, anchors[i].at)), "lex-sub-start") {
			first = i
			break
		}
	}
	if first < 0 {
		panic(unsupported("LexConfig on a sub-slice that starts inside a token"))
	}
	last := -1 // index one past the last included token
	for e := first; e < len(st.toks); e++ {
		lo := mkInt(0)
		if e > 0 {
			_, _, lo = st.imageE(st.toks[e-1].Range.End, true)
		}
		if in.branch(tAnd(tCmp("<=", lo, end), tCmp("<=", end, anchors[e].at)), "lex-sub-end") {
			last = e
			break
		}
	}
	if last < 0 {
		if in.branch(tEq(end, st.total), "lex-sub-end-eof") {
			last = len(st.toks) - 1
		} else {
			panic(unsupported("LexConfig on a sub-slice that ends inside a token"))
		}
	}
	// context independence, on the seed
	if last > first {
		s0, e0 := st.toks[first].Range.Start, st.toks[last-1].Range.End
		nat, _ := hclsyntax.LexConfig([]byte(st.src[s0.Byte:e0.Byte]), st.filename, s0)
		same := len(nat) == last-first+1 // plus EOF
		for k := 0; same && k < last-first; k++ {
			a, b := nat[k], st.toks[first+k]
			same = a.Type == b.Type && a.Range.Start == b.Range.Start && a.Range.End == b.Range.End
		}
		if !same {
			panic(unsupported("LexConfig on a sub-slice: the piece lexes differently out of context"))
		}
	}
	in.p.note("stub:LexConfig(A-LEX-SUB)")
	fl, fc, fb := st.image(st.toks[first].Range.Start)
	lead := tSub(fb, off) // blanks between the slice start and the first token
	conv := func(pos hcl.Pos, isEnd bool) (l, c, b *term) {
		il, ic, ib := st.imageE(pos, isEnd)
		l = tAdd(L0, tSub(il, fl))
		if pos.Line == st.toks[first].Range.Start.Line {
			c = tAdd(tAdd(C0, lead), tSub(ic, fc))
		} else {
			c = ic
		}
		b = tAdd(B0, tSub(ib, off))
		return
	}
	toks := make([]value, 0, last-first+1)
	var ll, lc, lb *term = L0, C0, B0
	lastEndByte := off
	for i := first; i < last; i++ {
		t := st.toks[i]
		sl, sc, sbb := conv(t.Range.Start, false)
		var el, ec, eb *term
		if t.Range.End.Byte == t.Range.Start.Byte {
			el, ec, eb = sl, sc, sbb
		} else {
			nb := t.Range.End.Byte - t.Range.Start.Byte
			dl := t.Range.End.Line - t.Range.Start.Line
			eb = tAdd(sbb, mkInt(int64(nb)))
			if dl == 0 {
				el, ec = sl, tAdd(sc, mkInt(int64(t.Range.End.Column-t.Range.Start.Column)))
			} else {
				el, ec = tAdd(sl, mkInt(int64(dl))), mkInt(int64(t.Range.End.Column))
			}
		}
		_, _, ib := st.image(t.Range.Start)
		tb := &symBytes{buf: st.buf, off: ib, n: mkInt(int64(len(t.Bytes))), c: tSub(st.total, ib)}
		rng := structure{st.filename, in.posValue(sl, sc, sbb), in.posValue(el, ec, eb)}
		toks = append(toks, structure{int32(t.Type), tb, rng})
		ll, lc, lb = el, ec, eb
		lastEndByte = tAdd(ib, mkInt(int64(t.Range.End.Byte-t.Range.Start.Byte)))
	}
	// the end-of-input token: after the blanks that follow the last token
	trail := tSub(end, lastEndByte)
	if last == first {
		trail = n
	}
	eofPos := in.posValue(ll, tAdd(lc, trail), tAdd(lb, trail))
	tb := &symBytes{buf: st.buf, off: end, n: mkInt(0), c: tSub(st.total, end)}
	toks = append(toks, structure{int32(hclsyntax.TokenEOF), tb, structure{st.filename, eofPos, eofPos}})
	var diags value = []value(nil)
	return tuple{toks, diags}
}

// LexConfig on the stretched file returns the seed's tokens under the stretch map (assumption A-LEX).
func stubLexConfig(in *interp, fr *frame, fn *ssa.Function, args []value) value {
	sb, ok := args[0].(*symBytes)
	if ok {
		for _, st := range in.stretchStates() {
			if st.buf == sb.buf && !st.json {
				if !(sb.off.isConst() && sb.off.i == 0 && sb.n == st.total) {
					return in.lexSubSlice(st, sb, args[2].(structure))
				}
				in.p.note("stub:LexConfig(A-LEX)")
				toks := make([]value, len(st.toks))
				for i, t := range st.toks {
					sl, sc, sbb := st.image(t.Range.Start)
					var el, ec, eb *term
					if t.Range.End.Byte == t.Range.Start.Byte {
						el, ec, eb = sl, sc, sbb
					} else {
						// the end of a token is its start plus its own extent
						n := t.Range.End.Byte - t.Range.Start.Byte
						dl := t.Range.End.Line - t.Range.Start.Line
						eb = tAdd(sbb, mkInt(int64(n)))
						if dl == 0 {
							el, ec = sl, tAdd(sc, mkInt(int64(t.Range.End.Column-t.Range.Start.Column)))
						} else {
							el, ec = tAdd(sl, mkInt(int64(dl))), mkInt(int64(t.Range.End.Column))
						}
					}
					n := mkInt(int64(len(t.Bytes)))
					tb := &symBytes{buf: st.buf, off: sbb, n: n, c: tSub(st.total, sbb)}
					rng := structure{st.filename, in.posValue(sl, sc, sbb), in.posValue(el, ec, eb)}
					toks[i] = structure{int32(t.Type), tb, rng}
				}
				var diags value = []value(nil)
				return tuple{toks, diags}
			}
		}
	}
	// concrete bytes: the real lexer
	if !allConcrete(args[0], 0) {
		panic(unsupported("LexConfig on symbolic bytes outside a stretched file"))
	}
	r, ok2 := in.callNative(fn, args)
	if !ok2 {
		panic(unsupported("LexConfig native call"))
	}
	return r
}

// verifImagePos(filename string, seedPos hcl.Pos, isEnd bool) hcl.Pos: the
// stretched image of a concrete position of the seed text.
func intrImagePos(in *interp, fr *frame, fn *ssa.Function, args []value) value {
	st := in.stretchByName(args[0])
	ps := args[1].(structure)
	if isSym(ps[0]) || isSym(ps[1]) || isSym(ps[2]) {
		panic(unsupported("verifImagePos of a symbolic position"))
	}
	p := hcl.Pos{Line: int(asInt64(ps[0])), Column: int(asInt64(ps[1])), Byte: int(asInt64(ps[2]))}
	isEnd, _ := args[2].(bool)
	return in.stretchPosE(st, p, isEnd)
}
