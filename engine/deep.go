package main

// Structural intrinsics used by the generated Copy() harnesses (C17) and by
// the C04 "fresh copy" checks: deep equality with one obligation per leaf,
// and independence (no shared mutable container), both type-directed so that
// values which are immutable by contract can be exempted by type name.

import (
	"fmt"
	"go/types"
	"strings"

	"golang.org/x/tools/go/ssa"
)

func init() {
	extraIntrinsics["verifDeepEqualAssert"] = intrDeepEqualAssert
	extraIntrinsics["verifIndependentAssert"] = intrIndependentAssert
}

func skipSet(s value) map[string]bool {
	m := map[string]bool{}
	if str, ok := s.(string); ok {
		for _, n := range strings.Split(str, ",") {
			if n = strings.TrimSpace(n); n != "" {
				m[n] = true
			}
		}
	}
	return m
}

func shortTypeName(T types.Type) string {
	if n, ok := types.Unalias(T).(*types.Named); ok {
		if n.Obj().Pkg() != nil {
			return n.Obj().Pkg().Name() + "." + n.Obj().Name()
		}
		return n.Obj().Name()
	}
	return ""
}

// verifDeepEqualAssert(a, b interface{}, tag string)
func intrDeepEqualAssert(in *interp, fr *frame, fn *ssa.Function, args []value) value {
	a, b := args[0].(iface), args[1].(iface)
	tag := args[2].(string)
	if !sameType(a.t, b.t) {
		in.p.oblige(tFalse, "assert", tag+"#type", tag+"#type", in.stack())
		return nil
	}
	if a.t == nil {
		return nil
	}
	in.deepEq(a.v, b.v, a.t, tag, 0)
	return nil
}

func (in *interp) leaf(c *term, tag string) {
	in.p.oblige(c, "assert", tag, tag, in.stack())
}

func (in *interp) deepEq(a, b value, T types.Type, path string, depth int) {
	if depth > 60 {
		return
	}
	T = types.Unalias(T)
	if _, ok := a.(native); ok {
		bb, ok2 := b.(native)
		in.leaf(mkBool(ok2 && nativeDeepEqual(a.(native), bb)), path)
		return
	}
	switch u := T.Underlying().(type) {
	case *types.Basic:
		in.leaf(in.equalsT(T, a, b), path)
	case *types.Pointer:
		if _, an := a.(native); an {
			in.leaf(mkBool(nativeDeepEqual(a.(native), b.(native))), path)
			return
		}
		pa, pb := a.(*value), b.(*value)
		if (pa == nil) != (pb == nil) {
			in.leaf(tFalse, path+"#nil")
			return
		}
		if pa == nil || pa == pb {
			return
		}
		in.deepEq(*pa, *pb, u.Elem(), path, depth+1)
	case *types.Struct:
		sa, sb := a.(structure), b.(structure)
		for i := 0; i < u.NumFields(); i++ {
			in.deepEq(sa[i], sb[i], u.Field(i).Type(), path+"."+u.Field(i).Name(), depth+1)
		}
	case *types.Slice:
		if sba, ok := a.(*symBytes); ok {
			in.leaf(tEq(sba.content(), anyStrTerm(b)), path)
			return
		}
		if _, ok := b.(*symBytes); ok {
			in.leaf(tEq(anyStrTerm(a), anyStrTerm(b)), path)
			return
		}
		la, lb := a.([]value), b.([]value)
		if len(la) != len(lb) {
			in.leaf(tFalse, path+"#len")
			return
		}
		for i := range la {
			in.deepEq(la[i], lb[i], u.Elem(), fmt.Sprintf("%s[%d]", path, i), depth+1)
		}
	case *types.Array:
		la, lb := a.(array), b.(array)
		for i := range la {
			in.deepEq(la[i], lb[i], u.Elem(), fmt.Sprintf("%s[%d]", path, i), depth+1)
		}
	case *types.Map:
		ma, mb := a.(*omap), b.(*omap)
		if ma.len() != mb.len() {
			in.leaf(tFalse, path+"#len")
			return
		}
		if ma == nil {
			return
		}
		for _, e := range ma.ents {
			if e.deleted {
				continue
			}
			o := in.mapFind(mb, e.k)
			ks := toString(e.k)
			ks = strings.Trim(ks, `"`)
			if o == nil {
				in.leaf(tFalse, fmt.Sprintf("%s[%s]#missing", path, ks))
				continue
			}
			in.deepEq(e.v, o.v, u.Elem(), fmt.Sprintf("%s[%s]", path, ks), depth+1)
		}
	case *types.Interface:
		ia, ib := a.(iface), b.(iface)
		if !sameType(ia.t, ib.t) {
			in.leaf(tFalse, path+"#type")
			return
		}
		if ia.t == nil {
			return
		}
		in.deepEq(ia.v, ib.v, ia.t, path, depth+1)
	case *types.Signature:
		in.leaf(mkBool(isNilRef(a) == isNilRef(b)), path+"#nil")
	default:
		panic(unsupported(fmt.Sprintf("deepEq on %s", T)))
	}
}

func nativeDeepEqual(a, b native) bool {
	if !a.rv.IsValid() || !b.rv.IsValid() {
		return a.rv.IsValid() == b.rv.IsValid()
	}
	defer func() { recover() }()
	if m := a.rv.MethodByName("RawEquals"); m.IsValid() && m.Type().NumIn() == 1 && b.rv.Type().AssignableTo(m.Type().In(0)) {
		return m.Call([]reflectValue{b.rv})[0].Bool()
	}
	if m := a.rv.MethodByName("Equals"); m.IsValid() && m.Type().NumIn() == 1 && m.Type().NumOut() == 1 && m.Type().Out(0).Kind() == 1 && b.rv.Type().AssignableTo(m.Type().In(0)) {
		return m.Call([]reflectValue{b.rv})[0].Bool()
	}
	return reflectDeepEqual(a.rv.Interface(), b.rv.Interface())
}

// verifIndependentAssert(a, b interface{}, tag string, skipTypes string)
// asserts that no mutable container (pointer target, slice backing array, map)
// is reachable from both a and b, not looking inside values of the named types.
func intrIndependentAssert(in *interp, fr *frame, fn *ssa.Function, args []value) value {
	a, b := args[0].(iface), args[1].(iface)
	tag := args[2].(string)
	skip := skipSet(args[3])
	if a.t == nil || b.t == nil {
		return nil
	}
	ca := map[interface{}]string{}
	in.collectCells(a.v, a.t, "", skip, ca, 0)
	cb := map[interface{}]string{}
	in.collectCells(b.v, b.t, "", skip, cb, 0)
	shared := map[string]bool{}
	for c, p := range ca {
		if _, ok := cb[c]; ok {
			shared[p] = true
		}
	}
	for p := range shared {
		in.p.oblige(tFalse, "assert", tag+p, tag+p, in.stack())
		return nil // one is enough per path (the path ends at a failed concrete obligation)
	}
	in.p.oblige(tTrue, "assert", tag, tag, in.stack())
	return nil
}

func (in *interp) collectCells(v value, T types.Type, path string, skip map[string]bool, out map[interface{}]string, depth int) {
	if depth > 60 {
		return
	}
	T = types.Unalias(T)
	if skip[shortTypeName(T)] {
		return
	}
	if _, ok := v.(native); ok {
		return
	}
	switch u := T.Underlying().(type) {
	case *types.Pointer:
		p, ok := v.(*value)
		if !ok || p == nil {
			return
		}
		if _, seen := out[p]; seen {
			return
		}
		out[p] = path
		in.collectCells(*p, u.Elem(), path, skip, out, depth+1)
	case *types.Struct:
		st := v.(structure)
		for i := 0; i < u.NumFields(); i++ {
			in.collectCells(st[i], u.Field(i).Type(), path+"."+u.Field(i).Name(), skip, out, depth+1)
		}
	case *types.Slice:
		sl, ok := v.([]value)
		if !ok || cap(sl) == 0 {
			return
		}
		full := sl[:cap(sl)]
		key := &full[cap(sl)-1]
		if _, seen := out[key]; !seen {
			out[key] = path
		}
		for i := range sl {
			in.collectCells(sl[i], u.Elem(), fmt.Sprintf("%s[%d]", path, i), skip, out, depth+1)
		}
	case *types.Array:
		for i, e := range v.(array) {
			in.collectCells(e, u.Elem(), fmt.Sprintf("%s[%d]", path, i), skip, out, depth+1)
		}
	case *types.Map:
		m := v.(*omap)
		if m == nil {
			return
		}
		if _, seen := out[m]; seen {
			return
		}
		out[m] = path
		for _, e := range m.ents {
			if !e.deleted {
				in.collectCells(e.v, u.Elem(), fmt.Sprintf("%s[%s]", path, strings.Trim(toString(e.k), `"`)), skip, out, depth+1)
			}
		}
	case *types.Interface:
		ia := v.(iface)
		if ia.t == nil {
			return
		}
		// exemption by interface name: a dynamic type implementing a skipped interface
		for name := range skip {
			if it := in.lookupInterface(name); it != nil && types.Implements(ia.t, it) {
				return
			}
		}
		in.collectCells(ia.v, ia.t, path, skip, out, depth+1)
	}
}

func (in *interp) lookupInterface(short string) *types.Interface {
	i := strings.IndexByte(short, '.')
	if i < 0 {
		return nil
	}
	for path, p := range in.w.typesPkgs {
		if p.Name() == short[:i] && strings.HasPrefix(path, repoMod) {
			if o := p.Scope().Lookup(short[i+1:]); o != nil {
				if it, ok := o.Type().Underlying().(*types.Interface); ok {
					return it
				}
			}
		}
	}
	return nil
}

// deepEqTerm: structural equality as one Bool term (nil and empty containers are equal).
func (in *interp) deepEqTerm(a, b value, T types.Type, depth int) *term {
	if depth > 60 {
		return tTrue
	}
	T = types.Unalias(T)
	if na, ok := a.(native); ok {
		nb, ok2 := b.(native)
		return mkBool(ok2 && nativeDeepEqual(na, nb))
	}
	switch u := T.Underlying().(type) {
	case *types.Basic:
		return in.equalsT(T, a, b)
	case *types.Pointer:
		pa, pb := a.(*value), b.(*value)
		if (pa == nil) != (pb == nil) {
			return tFalse
		}
		if pa == nil || pa == pb {
			return tTrue
		}
		return in.deepEqTerm(*pa, *pb, u.Elem(), depth+1)
	case *types.Struct:
		sa, sb := a.(structure), b.(structure)
		var cs []*term
		for i := 0; i < u.NumFields(); i++ {
			c := in.deepEqTerm(sa[i], sb[i], u.Field(i).Type(), depth+1)
			if c.isConst() && !c.b {
				return tFalse
			}
			cs = append(cs, c)
		}
		return tAnd(cs...)
	case *types.Slice:
		if _, ok := a.(*symBytes); ok {
			return tEq(in.rs(anyStrTerm(a)), in.rs(anyStrTerm(b)))
		}
		if _, ok := b.(*symBytes); ok {
			return tEq(in.rs(anyStrTerm(a)), in.rs(anyStrTerm(b)))
		}
		la, lb := a.([]value), b.([]value)
		if len(la) != len(lb) {
			return tFalse
		}
		var cs []*term
		for i := range la {
			c := in.deepEqTerm(la[i], lb[i], u.Elem(), depth+1)
			if c.isConst() && !c.b {
				return tFalse
			}
			cs = append(cs, c)
		}
		return tAnd(cs...)
	case *types.Array:
		la, lb := a.(array), b.(array)
		var cs []*term
		for i := range la {
			cs = append(cs, in.deepEqTerm(la[i], lb[i], u.Elem(), depth+1))
		}
		return tAnd(cs...)
	case *types.Map:
		ma, mb := a.(*omap), b.(*omap)
		if ma.len() != mb.len() {
			return tFalse
		}
		if ma == nil {
			return tTrue
		}
		var cs []*term
		for _, e := range ma.ents {
			if e.deleted {
				continue
			}
			o := in.mapFind(mb, e.k)
			if o == nil {
				return tFalse
			}
			cs = append(cs, in.deepEqTerm(e.v, o.v, u.Elem(), depth+1))
		}
		return tAnd(cs...)
	case *types.Interface:
		ia, ib := a.(iface), b.(iface)
		if !sameType(ia.t, ib.t) {
			return tFalse
		}
		if ia.t == nil {
			return tTrue
		}
		return in.deepEqTerm(ia.v, ib.v, ia.t, depth+1)
	case *types.Signature:
		return mkBool(isNilRef(a) == isNilRef(b))
	}
	panic(unsupported(fmt.Sprintf("deepEqTerm on %s", T)))
}

// verifPieces(s string) []verifPiece: the structure of a formatted string —
// literal pieces and formatted integers — so that a harness can inspect tab
// stops of a snippet whose placeholder numbers are symbolic.
func init() {
	extraIntrinsics["verifPieces"] = func(in *interp, fr *frame, fn *ssa.Function, args []value) value {
		t := strTerm(args[0])
		var out []value
		add := func(lit string) {
			if n := len(out); n > 0 {
				if st := out[n-1].(structure); st[2] == false {
					st[0] = st[0].(string) + lit
					return
				}
			}
			out = append(out, structure{lit, 0, false})
		}
		var walk func(t *term)
		walk = func(t *term) {
			switch {
			case t.isConst():
				add(t.s)
			case t.op == "str.++":
				for _, a := range t.args {
					walk(a)
				}
			case t.op == "str.from_int":
				out = append(out, structure{"", intVal(t.args[0], types.Int), true})
			case t.op == "ite" && len(t.args) == 3 && t.args[2].op == "str.from_int":
				// fmtInt: ite(x<0, "-"++from_int(-x), from_int(x))
				out = append(out, structure{"", intVal(t.args[2].args[0], types.Int), true})
			default:
				panic(unsupported("verifPieces: a piece that is neither a literal nor a formatted integer: " + t.op))
			}
		}
		walk(t)
		return out
	}
}
