package main

// Loading /repo's current source (plus harness overlays) and building SSA.

import (
	"fmt"
	"go/types"
	"os"
	"path/filepath"
	"regexp"
	"sort"
	"strings"
	"sync"
	"time"

	"golang.org/x/tools/go/packages"
	"golang.org/x/tools/go/ssa"
	"golang.org/x/tools/go/ssa/ssautil"
)

type world struct {
	prog           *ssa.Program
	pkgs           []*packages.Package
	ssaPkgs        map[string]*ssa.Package
	typesPkgs      map[string]*types.Package
	mu             sync.Mutex
	opaqueCache    sync.Map // types.Type -> bool
	rtCache        sync.Map // reflect.Type -> types.Type
	loadSecs       float64
	buildSecs      float64
	overlayed      []string
	initOrder      []*ssa.Package
	intrinsicNames map[string]bool
}

var theWorld *world

// repoDir is /repo; VERIF_REPO points the whole machinery at another checkout (used to evaluate
// a seeded change in its scratch worktree while /repo stays untouched): a scratch module whose
// replace directive names that checkout is generated, and evidence goes to out/alt/.
var repoDir, moduleDir = func() (string, string) {
	alt := os.Getenv("VERIF_REPO")
	if alt == "" {
		return "/repo", "/verif/engine"
	}
	mod, err := os.ReadFile("/verif/engine/go.mod")
	if err != nil {
		panic(err)
	}
	sum, _ := os.ReadFile("/verif/engine/go.sum")
	dir, err := os.MkdirTemp("", "gosym-mod-")
	if err != nil {
		panic(err)
	}
	s := strings.Replace(string(mod), "=> /repo", "=> "+alt, 1)
	s = strings.Replace(s, "module verif/engine", "module verif/altengine", 1)
	os.WriteFile(filepath.Join(dir, "go.mod"), []byte(s), 0o644)
	os.WriteFile(filepath.Join(dir, "go.sum"), sum, 0o644)
	return alt, dir
}()

const repoMod = "github.com/hashicorp/hcl-lang"

var harnessDir = func() string {
	// development only: work on a copy of the harnesses while checks run on the committed ones
	if d := os.Getenv("VERIF_HARNESS_DIR"); d != "" {
		return d
	}
	return "/verif/harness"
}()

// droppedHarnessFiles: harness files (overlay destination -> first compile error) that do not
// compile against the tree under check - a kernel that calls an unexported function whose
// signature changed, say. They are left out (the other harnesses still decide), reported on
// stdout and in the evidence; nothing else is ever dropped.
var droppedHarnessFiles = map[string]string{}

// harnessOverlay maps /verif/harness/<pkgdir>/*.go to /repo/<pkgdir>/zz_verif_*.go
func harnessOverlay() (map[string][]byte, []string, error) {
	ov, names, err := harnessOverlayAll()
	if err != nil {
		return ov, names, err
	}
	var kept []string
	for _, n := range names {
		if _, dropped := droppedHarnessFiles[n]; dropped {
			delete(ov, n)
			continue
		}
		kept = append(kept, n)
	}
	return ov, kept, nil
}

func harnessOverlayAll() (map[string][]byte, []string, error) {
	ov := map[string][]byte{}
	var names []string
	support, err := os.ReadFile(filepath.Join(harnessDir, "support.go.tmpl"))
	if err != nil {
		return nil, nil, err
	}
	err = filepath.Walk(harnessDir, func(p string, fi os.FileInfo, err error) error {
		if err != nil {
			return err
		}
		if fi.IsDir() || !strings.HasSuffix(p, ".go") {
			return nil
		}
		rel, _ := filepath.Rel(harnessDir, p)
		dir := filepath.Dir(rel)
		if dir == "." || strings.HasPrefix(dir, "gen") || strings.HasPrefix(dir, "twins") {
			return nil
		}
		b, err := os.ReadFile(p)
		if err != nil {
			return err
		}
		dst := filepath.Join(repoDir, dir, "zz_verif_"+filepath.Base(p))
		ov[dst] = b
		names = append(names, dst)
		// one support file per package directory
		sup := filepath.Join(repoDir, dir, "zz_verif_support.go")
		if _, ok := ov[sup]; !ok {
			pkgName := packageClause(b)
			ov[sup] = []byte(strings.Replace(string(support), "package PKG", "package "+pkgName, 1))
			if dir == "decoder" {
				if sp, err := os.ReadFile(filepath.Join(harnessDir, "support_parse.go.tmpl")); err == nil {
					ov[filepath.Join(repoDir, dir, "zz_verif_support_parse.go")] = []byte(strings.Replace(string(sp), "package PKG", "package "+pkgName, 1))
				}
			}
		}
		return nil
	})
	sort.Strings(names)
	if err == nil {
		gen, gerr := generateCopyHarnesses()
		if gerr != nil {
			return nil, nil, gerr
		}
		dst := filepath.Join(repoDir, "schema", "zz_verif_gen_copy.go")
		ov[dst] = gen
		names = append(names, dst)
		sup := filepath.Join(repoDir, "schema", "zz_verif_support.go")
		if _, ok := ov[sup]; !ok {
			ov[sup] = []byte(strings.Replace(string(support), "package PKG", "package schema", 1))
		}
	}
	return ov, names, err
}

func packageClause(src []byte) string {
	for _, line := range strings.Split(string(src), "\n") {
		line = strings.TrimSpace(line)
		if strings.HasPrefix(line, "package ") {
			return strings.Fields(line)[1]
		}
	}
	return "main"
}

func loadWorld(extraOverlay map[string][]byte) (*world, error) {
	t0 := time.Now()
	ov, names, err := harnessOverlay()
	if err != nil {
		return nil, err
	}
	for k, v := range extraOverlay {
		ov[k] = v
	}
	cfg := &packages.Config{
		Mode:    packages.LoadAllSyntax,
		Dir:     moduleDir,
		Overlay: ov,
		Env:     append(os.Environ(), "GOFLAGS=-mod=mod", "GOPROXY=off", "GOSUMDB=off", "GOTOOLCHAIN=local"),
	}
	pats := []string{
		repoMod + "/decoder", repoMod + "/reference", repoMod + "/schema", repoMod + "/lang",
		repoMod + "/validator", repoMod + "/schemacontext", repoMod + "/decoder/internal/schemahelper",
		repoMod + "/decoder/internal/walker", repoMod + "/decoder/internal/ast",
		"github.com/hashicorp/hcl/v2/json", "runtime", "sort", "slices", "strings", "bytes", "unicode/utf8", "errors", "strconv",
	}
	var pkgs []*packages.Package
	var errs []string
	for attempt := 0; ; attempt++ {
		pkgs, err = packages.Load(cfg, pats...)
		if err != nil {
			return nil, err
		}
		errs = nil
		packages.Visit(pkgs, nil, func(p *packages.Package) {
			for _, e := range p.Errors {
				errs = append(errs, e.Error())
			}
		})
		if len(errs) == 0 || attempt >= 6 {
			break
		}
		// errors inside harness files: drop those files and load again
		dropped := false
		for _, e := range errs {
			file := e
			if i := strings.Index(e, ".go:"); i >= 0 {
				file = e[:i+3]
			}
			base := filepath.Base(file)
			if _, isOverlay := ov[file]; !isOverlay || !strings.HasPrefix(base, "zz_verif_") || strings.HasPrefix(base, "zz_verif_support") || base == "zz_verif_g_common.go" {
				continue
			}
			if _, seen := droppedHarnessFiles[file]; !seen {
				droppedHarnessFiles[file] = e
				dropped = true
			}
		}
		if !dropped {
			break
		}
		for f := range droppedHarnessFiles {
			delete(ov, f)
		}
		var kept []string
		for _, n := range names {
			if _, gone := droppedHarnessFiles[n]; !gone {
				kept = append(kept, n)
			}
		}
		names = kept
		cfg.Overlay = ov
	}
	if len(errs) > 0 {
		if len(errs) > 12 {
			errs = errs[:12]
		}
		return nil, fmt.Errorf("package load errors:\n%s", strings.Join(errs, "\n"))
	}
	w := &world{pkgs: pkgs, ssaPkgs: map[string]*ssa.Package{}, typesPkgs: map[string]*types.Package{},
		overlayed: names}
	w.loadSecs = time.Since(t0).Seconds()
	w.intrinsicNames = map[string]bool{}
	if sup, err := os.ReadFile(filepath.Join(harnessDir, "support.go.tmpl")); err == nil {
		sp, _ := os.ReadFile(filepath.Join(harnessDir, "support_parse.go.tmpl"))
		for _, m := range regexp.MustCompile(`(?m)^func (verif\w+)\(`).FindAllStringSubmatch(string(sup)+"\n"+string(sp), -1) {
			w.intrinsicNames[m[1]] = true
		}
	}
	t1 := time.Now()
	prog, _ := ssautil.AllPackages(pkgs, ssa.InstantiateGenerics|ssa.SanityCheckFunctions&0)
	prog.Build()
	w.prog = prog
	for _, p := range prog.AllPackages() {
		w.ssaPkgs[p.Pkg.Path()] = p
		w.typesPkgs[p.Pkg.Path()] = p.Pkg
	}
	w.buildSecs = time.Since(t1).Seconds()
	// pre-warm caches that would otherwise be written concurrently
	theWorld = w
	return w, nil
}

// shouldInit: packages whose initialisers are executed by the interpreter.
func (w *world) shouldInit(path string) bool {
	return w.isInterpretedPkg(path) || (fallbackPkgs[path] && !noInitPkgs[path])
}

func (w *world) lockedOpaque(T types.Type) bool {
	w.mu.Lock()
	defer w.mu.Unlock()
	return w.isOpaque(T)
}
