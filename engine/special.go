package main

// Call dispatch for everything that is not plain interpretation of an SSA
// body: harness intrinsics (verif*), stubs, package initialisers, native
// call-outs.

import (
	"fmt"
	"go/types"
	"sort"

	"golang.org/x/tools/go/ssa"
)

type fnInfo struct {
	full      string
	pkgPath   string
	intrinsic string
	stub      stubFn
	isInit    bool
	native    bool // package outside the interpreted region
	fallback  bool
}

func (in *interp) info(fn *ssa.Function) *fnInfo {
	if fi, ok := in.fnInfos[fn]; ok {
		return fi
	}
	fi := &fnInfo{full: fn.String(), pkgPath: pkgPathOfFn(fn)}
	if fn.Pkg != nil && in.w.intrinsicNames[fn.Name()] && fn.Signature.Recv() == nil && in.w.isInterpretedPkg(fi.pkgPath) {
		fi.intrinsic = fn.Name()
	}
	if fn.Name() == "init" && fn.Synthetic == "package initializer" {
		fi.isInit = true
	}
	if s, ok := stubTable[fi.full]; ok {
		fi.stub = s
	}
	fi.native = !in.w.isInterpretedPkg(fi.pkgPath)
	fi.fallback = fallbackPkgs[fi.pkgPath]
	in.fnInfos[fn] = fi
	return fi
}

func (in *interp) dispatchSpecial(fr *frame, fn *ssa.Function, args []value) (value, bool) {
	fi := in.info(fn)
	if fi.intrinsic != "" {
		return in.intrinsic(fr, fi.intrinsic, fn, args), true
	}
	if fi.isInit {
		if !in.w.shouldInit(fi.pkgPath) {
			return nil, true
		}
		return nil, false
	}
	if fi.stub != nil {
		saveTop := in.top
		in.top = fr
		fr.caller = saveTop
		defer func() { in.top = saveTop }()
		return fi.stub(in, fr, fn, args), true
	}
	if !fi.native {
		return nil, false
	}
	conc := true
	for _, a := range args {
		if !allConcrete(a, 0) {
			conc = false
			break
		}
	}
	if conc {
		// a callback (sort.Search, ...) may turn out to compute with symbolic values: the native
		// call is abandoned then and the callee is interpreted where its package allows that
		r, ok, symbolicCallback := func() (r value, ok bool, sc string) {
			defer func() {
				if x := recover(); x != nil {
					if b, isB := x.(bridgeSymbolic); isB {
						r, ok, sc = nil, false, b.why
						return
					}
					panic(x)
				}
			}()
			r, ok = in.callNative(fn, args)
			return r, ok, ""
		}()
		if ok {
			return r, true
		}
		if symbolicCallback != "" {
			if fn.Blocks != nil && (fi.fallback || fn.Synthetic != "") {
				return nil, false
			}
			panic(unsupported("bridge result: " + symbolicCallback))
		}
	}
	if fn.Blocks != nil && (fi.fallback || fn.Synthetic != "") {
		return nil, false
	}
	why := "symbolic"
	if conc {
		why = "unmarshalable"
	}
	panic(unsupported(fmt.Sprintf("call into native %s with %s arguments", fi.full, why)))
}

// ---------------------------------------------------------------------------
// intrinsics

func (in *interp) intrinsic(fr *frame, name string, fn *ssa.Function, args []value) value {
	p := in.p
	str := func(i int) string {
		s, ok := args[i].(string)
		if !ok {
			panic(unsupported(name + ": argument must be a concrete string"))
		}
		return s
	}
	num := func(i int) int64 { return asInt64(args[i]) }
	switch name {
	case "verifInt":
		v := p.newVar(str(0), sInt)
		p.assume(tAnd(tCmp(">=", v, mkInt(num(1))), tCmp("<=", v, mkInt(num(2)))))
		return intVal(v, types.Int)
	case "verifBool":
		return boolVal(p.newVar(str(0), sBool))
	case "verifString":
		v := p.newVar(str(0), sStr)
		p.assume(tCmp("<=", tLen(v), mkInt(num(1))))
		alpha := str(2)
		if alpha == "" {
			p.assume(tInRe(v, "(re.* "+reAnyByte+")"))
		} else {
			p.assume(tInRe(v, "(re.* "+reClass(alpha)+")"))
		}
		return strVal(v)
	case "verifIdent":
		// non-empty identifier: [a-z][a-z0-9_]*
		v := p.newVar(str(0), sStr)
		p.assume(tCmp("<=", tLen(v), mkInt(num(1))))
		p.assume(tInRe(v, "(re.++ "+reClass("a-z")+" (re.* "+reClass("a-z0-9_")+"))"))
		return strVal(v)
	case "verifChoice":
		n := int(num(1))
		c := p.choose(n, str(0))
		p.choices[p.freshName("choice:"+str(0))] = c
		return c
	case "verifAssume":
		switch c := args[0].(type) {
		case bool:
			if !c {
				p.abort("assume-false", "")
			}
		case symBool:
			r, _ := p.feasible(c.t)
			if r == rUnsat {
				p.abort("assume-false", "")
			}
			p.assume(c.t)
		}
		return nil
	case "verifAssert":
		tag := str(1)
		switch c := args[0].(type) {
		case bool:
			p.oblige(mkBool(c), "assert", tag, tag, in.stack())
		case symBool:
			p.oblige(c.t, "assert", tag, tag, in.stack())
		}
		return nil
	case "verifAnd":
		return boolVal(tAnd(boolTerm(args[0]), boolTerm(args[1])))
	case "verifOr":
		return boolVal(tOr(boolTerm(args[0]), boolTerm(args[1])))
	case "verifNot":
		return boolVal(tNot(boolTerm(args[0])))
	case "verifImplies":
		return boolVal(tOr(tNot(boolTerm(args[0])), boolTerm(args[1])))
	case "verifIteInt":
		return intVal(tIte(boolTerm(args[0]), intTerm(args[1]), intTerm(args[2])), types.Int)
	case "verifFreeze":
		in.freeze()
		return nil
	case "verifNoWrites":
		// every recorded write is a candidate violation of its own
		tag := str(0)
		onlyChanged := args[1].(bool)
		seen := map[string]bool{}
		for _, w := range in.writes {
			if onlyChanged && !w.Changed {
				continue
			}
			k := w.Kind + "@" + w.Site
			if seen[k] {
				continue
			}
			seen[k] = true
			p.recordFailure("write", tag+":"+w.Kind, w.Site, w.Stack, p.modelNow())
		}
		return nil
	case "verifQuery":
		return in.call(fr, 0, args[0], nil)
	case "verifWriteCount":
		return len(in.writes)
	case "verifPermuteMaps":
		// 0 = insertion order; 1 = every map reversed; 2 = every map rotated by one;
		// 3 = a separate fork at every range statement (all n! orders for n<=3)
		in.permuteMode = int(asInt64(args[0]))
		in.permuteMaps = in.permuteMode == 3
		return nil
	case "verifRuns":
		return 1
	case "verifDeepEqual":
		a, b := args[0].(iface), args[1].(iface)
		if !sameType(a.t, b.t) {
			return false
		}
		if a.t == nil {
			return true
		}
		return boolVal(in.deepEqTerm(a.v, b.v, a.t, 0))
	case "verifReach":
		p.reach(str(0))
		return nil
	case "verifIsSymbolic":
		return isSym(args[0])
	case "verifConcretize":
		// fork over the feasible values of a bounded symbolic int
		if !isSym(args[0]) {
			return args[0]
		}
		lo, hi := num(1), num(2)
		t := intTerm(args[0])
		alts := make([]*term, 0, hi-lo+1)
		for k := lo; k <= hi; k++ {
			alts = append(alts, tEq(t, mkInt(k)))
		}
		c := p.decide(alts, "concretize")
		return int(lo) + c
	case "verifNote":
		p.note(str(0))
		return nil
	case "verifSameCell":
		// do two references denote the same mutable container?
		return sameCell(args[0], args[1])
	case "verifSharedCells":
		return in.sharedCells(args[0], args[1])
	}
	if h, ok := extraIntrinsics[name]; ok {
		return h(in, fr, fn, args)
	}
	panic(unsupported("unknown intrinsic " + name))
}

var extraIntrinsics = map[string]stubFn{}

func sameCell(a, b value) bool {
	switch x := a.(type) {
	case iface:
		if y, ok := b.(iface); ok {
			return sameCell(x.v, y.v)
		}
		return sameCell(x.v, b)
	case *value:
		y, ok := b.(*value)
		return ok && x != nil && x == y
	case *omap:
		y, ok := b.(*omap)
		return ok && x != nil && x == y
	case []value:
		y, ok := b.([]value)
		if !ok || cap(x) == 0 || cap(y) == 0 {
			return false
		}
		fx, fy := x[:cap(x)], y[:cap(y)]
		return &fx[cap(x)-1] == &fy[cap(y)-1]
	}
	if y, ok := b.(iface); ok {
		return sameCell(a, y.v)
	}
	return false
}

// sharedCells lists (as a count) the mutable containers reachable from both a
// and b, not looking through values whose static types are immutable by
// contract (handled by the harness passing only the schema nodes).
func (in *interp) sharedCells(a, b value) value {
	wa, wb := newCellWalker(), newCellWalker()
	wa.walk(a)
	wb.walk(b)
	n := 0
	for c := range wa.cells {
		if _, ok := wb.cells[c]; ok {
			n++
		}
	}
	for m := range wa.maps {
		if _, ok := wb.maps[m]; ok {
			n++
		}
	}
	return n
}

// choosePermutation forks over iteration orders of a map (verifPermuteMaps).
func (in *interp) choosePermutation(m *omap) []int {
	var live []int
	for i, e := range m.ents {
		if !e.deleted {
			live = append(live, i)
		}
	}
	n := len(live)
	var perms [][]int
	if n <= 3 {
		perms = permutations(live)
	} else {
		// identity, reverse and every rotation (reduced bound; stated in evidence)
		perms = append(perms, append([]int{}, live...))
		rev := append([]int{}, live...)
		sort.Sort(sort.Reverse(sort.IntSlice(rev)))
		perms = append(perms, rev)
		for r := 1; r < n; r++ {
			perms = append(perms, append(append([]int{}, live[r:]...), live[:r]...))
		}
		in.p.note("map-permutation-reduced")
	}
	c := in.p.choose(len(perms), "map-order")
	return perms[c]
}

func permutations(xs []int) [][]int {
	if len(xs) <= 1 {
		return [][]int{append([]int{}, xs...)}
	}
	var out [][]int
	for i := range xs {
		rest := append(append([]int{}, xs[:i]...), xs[i+1:]...)
		for _, p := range permutations(rest) {
			out = append(out, append([]int{xs[i]}, p...))
		}
	}
	return out
}
