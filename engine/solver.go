package main

// One persistent SMT solver process per worker, spoken to in SMT-LIB2 over a
// pipe. Only (set-logic ALL): the QF_* logics of z3 4.8.12 silently drop what
// they cannot parse. Any "(error" line makes the answer inconclusive.

import (
	"bufio"
	"fmt"
	"io"
	"os/exec"
	"strconv"
	"strings"
	"time"
)

type solverStats struct {
	Queries, Sat, Unsat, Unknown, Errors int
	Seconds                              float64
}

type solver struct {
	name  string
	cmd   *exec.Cmd
	in    io.WriteCloser
	out   *bufio.Reader
	stats solverStats
	depth int
	log   io.Writer
}

func solverArgv(name string, timeoutMs int) []string {
	switch name {
	case "z3":
		return []string{"z3", "-in", "-t:" + strconv.Itoa(timeoutMs)}
	case "z3-new":
		return []string{"z3-new", "-in", "-t:" + strconv.Itoa(timeoutMs)}
	case "cvc5":
		return []string{"cvc5", "--incremental", "--strings-exp", "--lang=smt2", "--tlimit-per=" + strconv.Itoa(timeoutMs), "--produce-models"}
	}
	panic("unknown solver " + name)
}

func newSolver(name string, timeoutMs int) (*solver, error) {
	argv := solverArgv(name, timeoutMs)
	cmd := exec.Command(argv[0], argv[1:]...)
	in, err := cmd.StdinPipe()
	if err != nil {
		return nil, err
	}
	outp, err := cmd.StdoutPipe()
	if err != nil {
		return nil, err
	}
	cmd.Stderr = nil
	if err := cmd.Start(); err != nil {
		return nil, err
	}
	s := &solver{name: name, cmd: cmd, in: in, out: bufio.NewReaderSize(outp, 1<<16)}
	s.send("(set-option :print-success false)")
	s.send("(set-option :produce-models true)")
	s.send("(set-logic ALL)")
	return s, nil
}

func (s *solver) send(line string) {
	if s.log != nil {
		fmt.Fprintln(s.log, line)
	}
	io.WriteString(s.in, line)
	io.WriteString(s.in, "\n")
}

func (s *solver) close() {
	if s == nil || s.cmd == nil {
		return
	}
	s.in.Close()
	done := make(chan struct{})
	go func() { s.cmd.Wait(); close(done) }()
	select {
	case <-done:
	case <-time.After(500 * time.Millisecond):
		s.cmd.Process.Kill()
		<-done
	}
	s.cmd = nil
}

// reset drops all assertions and declarations.
func (s *solver) reset() {
	s.send("(reset)")
	s.send("(set-option :print-success false)")
	s.send("(set-option :produce-models true)")
	s.send("(set-logic ALL)")
	s.depth = 0
}

func (s *solver) push() { s.send("(push 1)"); s.depth++ }
func (s *solver) pop()  { s.send("(pop 1)"); s.depth-- }

func (s *solver) declare(v *term) {
	s.send("(declare-const " + v.String() + " " + v.sort.String() + ")")
}

func (s *solver) assert(t *term) {
	s.send("(assert " + t.String() + ")")
}

// readSexp reads one complete line-or-s-expression answer.
func (s *solver) readAnswer() (string, error) {
	var b strings.Builder
	depth := 0
	started := false
	inStr := false
	for {
		c, err := s.out.ReadByte()
		if err != nil {
			return b.String(), err
		}
		if !started {
			if c == ' ' || c == '\n' || c == '\r' || c == '\t' {
				continue
			}
			started = true
		}
		b.WriteByte(c)
		if inStr {
			if c == '"' {
				inStr = false
			}
			continue
		}
		switch c {
		case '"':
			inStr = true
		case '(':
			depth++
		case ')':
			depth--
			if depth == 0 {
				return b.String(), nil
			}
		case '\n':
			if depth == 0 {
				return strings.TrimSpace(b.String()), nil
			}
		}
	}
}

type satResult int

const (
	rUnsat satResult = iota
	rSat
	rUnknown
)

func (r satResult) String() string { return [...]string{"unsat", "sat", "unknown"}[r] }

func (s *solver) checkSat() satResult {
	t0 := time.Now()
	s.send("(check-sat)")
	s.stats.Queries++
	var res satResult = rUnknown
	for {
		ans, err := s.readAnswer()
		if err != nil {
			s.stats.Errors++
			res = rUnknown
			break
		}
		if strings.HasPrefix(ans, "(error") {
			s.stats.Errors++
			// keep reading until the verdict line arrives, but the verdict is not trusted
			a2, _ := s.readAnswer()
			_ = a2
			res = rUnknown
			if s.log != nil {
				fmt.Fprintln(s.log, "; ERROR:", ans)
			}
			lastSolverError = ans
			break
		}
		switch ans {
		case "sat":
			res = rSat
		case "unsat":
			res = rUnsat
		case "unknown", "timeout":
			res = rUnknown
		default:
			continue
		}
		break
	}
	s.stats.Seconds += time.Since(t0).Seconds()
	if s.log != nil {
		fmt.Fprintf(s.log, "; => %s in %.3fs\n", res, time.Since(t0).Seconds())
	}
	switch res {
	case rSat:
		s.stats.Sat++
	case rUnsat:
		s.stats.Unsat++
	default:
		s.stats.Unknown++
	}
	return res
}

var lastSolverError string

// getValues returns the model values of the given variables (after sat).
func (s *solver) getValues(vars []*term) (model, error) {
	m := model{}
	if len(vars) == 0 {
		return m, nil
	}
	var b strings.Builder
	b.WriteString("(get-value (")
	for i, v := range vars {
		if i > 0 {
			b.WriteByte(' ')
		}
		b.WriteString(v.String())
	}
	b.WriteString("))")
	s.send(b.String())
	ans, err := s.readAnswer()
	if err != nil {
		return nil, err
	}
	if strings.HasPrefix(ans, "(error") {
		return nil, fmt.Errorf("solver: %s", ans)
	}
	sx, _, err := parseSexp(ans, 0)
	if err != nil {
		return nil, err
	}
	for _, pair := range sx.list {
		if len(pair.list) != 2 {
			continue
		}
		name := pair.list[0].atom
		name = strings.Trim(name, "|")
		m[name] = sexpValue(pair.list[1])
	}
	return m, nil
}

type sexp struct {
	atom string
	list []*sexp
	isl  bool
}

func parseSexp(s string, i int) (*sexp, int, error) {
	for i < len(s) && (s[i] == ' ' || s[i] == '\n' || s[i] == '\t' || s[i] == '\r') {
		i++
	}
	if i >= len(s) {
		return nil, i, fmt.Errorf("eof")
	}
	if s[i] == '(' {
		x := &sexp{isl: true}
		i++
		for {
			for i < len(s) && (s[i] == ' ' || s[i] == '\n' || s[i] == '\t' || s[i] == '\r') {
				i++
			}
			if i >= len(s) {
				return nil, i, fmt.Errorf("eof in list")
			}
			if s[i] == ')' {
				return x, i + 1, nil
			}
			c, j, err := parseSexp(s, i)
			if err != nil {
				return nil, j, err
			}
			x.list = append(x.list, c)
			i = j
		}
	}
	if s[i] == '"' {
		j := i + 1
		for j < len(s) {
			if s[j] == '"' {
				if j+1 < len(s) && s[j+1] == '"' {
					j += 2
					continue
				}
				break
			}
			j++
		}
		return &sexp{atom: s[i : j+1]}, j + 1, nil
	}
	if s[i] == '|' {
		j := strings.IndexByte(s[i+1:], '|')
		return &sexp{atom: s[i : i+j+2]}, i + j + 2, nil
	}
	j := i
	for j < len(s) && !strings.ContainsRune(" \n\t\r()", rune(s[j])) {
		j++
	}
	return &sexp{atom: s[i:j]}, j, nil
}

func sexpValue(x *sexp) interface{} {
	if x.isl {
		// (- 5)
		if len(x.list) == 2 && x.list[0].atom == "-" {
			if v, ok := sexpValue(x.list[1]).(int64); ok {
				return -v
			}
		}
		return nil
	}
	a := x.atom
	switch a {
	case "true":
		return true
	case "false":
		return false
	}
	if strings.HasPrefix(a, "\"") {
		return unescapeSMT(a[1 : len(a)-1])
	}
	if n, err := strconv.ParseInt(a, 10, 64); err == nil {
		return n
	}
	return nil
}

func unescapeSMT(s string) string {
	var b []byte
	for i := 0; i < len(s); i++ {
		c := s[i]
		if c == '"' && i+1 < len(s) && s[i+1] == '"' {
			b = append(b, '"')
			i++
			continue
		}
		if c == '\\' && i+1 < len(s) && s[i+1] == 'u' {
			// \u{hex} or \uXXXX
			if i+2 < len(s) && s[i+2] == '{' {
				j := strings.IndexByte(s[i:], '}')
				if j > 0 {
					n, err := strconv.ParseUint(s[i+3:i+j], 16, 32)
					if err == nil {
						b = append(b, byte(n))
						i += j
						continue
					}
				}
			} else if i+5 < len(s) {
				n, err := strconv.ParseUint(s[i+2:i+6], 16, 32)
				if err == nil {
					b = append(b, byte(n))
					i += 5
					continue
				}
			}
		}
		if c == '\\' && i+1 < len(s) && s[i+1] == 'x' && i+3 < len(s) {
			n, err := strconv.ParseUint(s[i+2:i+4], 16, 8)
			if err == nil {
				b = append(b, byte(n))
				i += 3
				continue
			}
		}
		b = append(b, c)
	}
	return string(b)
}
