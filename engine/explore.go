package main

// Exploration loop: workers (one interpreter + one solver each) consume a
// shared stack of decision prefixes (DESIGN.md appendix B.3).

import (
	"fmt"
	"os"
	"sort"
	"strings"
	"sync"
	"time"

	"golang.org/x/tools/go/ssa"
)

type bounds struct {
	MaxPaths   int   `json:"max_paths"`
	MaxSteps   int64 `json:"max_steps_per_path"`
	TimeoutMs  int   `json:"solver_timeout_ms"`
	Workers    int   `json:"workers"`
	MaxSeconds int   `json:"max_seconds"`
}

type harnessResult struct {
	Name         string           `json:"harness"`
	Paths        int              `json:"paths"`
	Status       map[string]int   `json:"path_end_status"`
	Decisions    int              `json:"decisions"`
	Obligations  int              `json:"obligations"`
	Trivial      int              `json:"obligations_concrete"`
	Discharged   int              `json:"discharged"`
	Candidates   int              `json:"candidates"`
	Undischarged int              `json:"undischarged"`
	Unsupported  map[string]int   `json:"unsupported,omitempty"`
	EngineErrors map[string]int   `json:"engine_errors,omitempty"`
	Undis        map[string]int   `json:"undischarged_detail,omitempty"`
	Notes        map[string]int   `json:"notes,omitempty"`
	Failures     []*failure       `json:"-"`
	Witness      map[string]model `json:"-"`
	Steps        int64            `json:"ssa_instructions_executed"`
	Funcs        map[string]int   `json:"-"`
	Seconds      float64          `json:"seconds"`
	BudgetHit    bool             `json:"path_budget_hit"`
	Solver       solverStats      `json:"solver"`
	FeasQueries  int              `json:"feasibility_queries"`
	ModelHits    int              `json:"feasibility_by_model"`
	IntervalHits int              `json:"feasibility_by_variable_bounds"`
	engineStacks map[string]string
}

type worker struct {
	lastResult value
	id         int
	in         *interp
	s          *solver
	w          *world
	err        error
}

func newInterp(w *world) *interp {
	in := &interp{w: w, prog: w.prog, globals: map[*ssa.Global]*value{}, fnInfos: map[*ssa.Function]*fnInfo{},
		funcsRun: map[*ssa.Function]int{}, opaque: map[string]interface{}{}}
	rt := w.prog.ImportedPackage("runtime")
	if rt != nil {
		in.rtErrString = rt.Type("errorString").Object().Type()
	}
	return in
}

// initPackages runs the package initialisers of the interpreted region.
func (wk *worker) initPackages(roots []string) (err error) {
	in := wk.in
	p := newPathCtx(wk.s, prefix{}, "<init>")
	p.maxSteps = 200_000_000
	in.p = p
	defer func() {
		if r := recover(); r != nil {
			err = fmt.Errorf("package init failed: %v", describePanic(r))
		}
	}()
	for _, path := range roots {
		pkg := wk.w.ssaPkgs[path]
		if pkg == nil {
			continue
		}
		if f := pkg.Func("init"); f != nil {
			in.call(nil, 0, f, nil)
		}
	}
	in.snapshotGlobals()
	return nil
}

func describePanic(r interface{}) string {
	switch x := r.(type) {
	case targetPanic:
		return "target panic: " + panicString(x.v) + "\n" + x.stack
	case unsupportedErr:
		return "unsupported: " + x.what + "\n" + x.stack
	case engineErr:
		return "engine error: " + x.msg + "\n" + x.stack
	case pathAbort:
		return "abort: " + x.status + " " + x.detail
	}
	return fmt.Sprint(r)
}

func panicString(v value) string {
	switch x := v.(type) {
	case iface:
		if x.t == nil {
			return "nil"
		}
		if s, ok := x.v.(string); ok {
			return s
		}
		if p, ok := x.v.(*value); ok && p != nil {
			if st, ok := (*p).(structure); ok && len(st) > 0 {
				if s, ok := st[0].(string); ok {
					return s
				}
			}
		}
		return x.t.String() + ": " + toString(x.v)
	case string:
		return x
	}
	return toString(v)
}

var initRoots = []string{
	"sort", "strings", "bytes", "unicode/utf8", "errors", "strconv", "slices", "unicode",
	repoMod + "/decoder", repoMod + "/validator", repoMod + "/schemacontext", repoMod + "/reference", repoMod + "/schema", repoMod + "/lang",
	repoMod + "/decoder/internal/schemahelper", repoMod + "/decoder/internal/walker", repoMod + "/decoder/internal/ast",
	"github.com/hashicorp/hcl/v2/json",
}

type explorer struct {
	w       *world
	b       bounds
	workers []*worker
	solver  string
}

func newExplorer(w *world, b bounds, solverName string) (*explorer, error) {
	ex := &explorer{w: w, b: b, solver: solverName}
	var wg sync.WaitGroup
	ex.workers = make([]*worker, b.Workers)
	for i := 0; i < b.Workers; i++ {
		s, err := newSolver(solverName, b.TimeoutMs)
		if err != nil {
			return nil, err
		}
		if dir := os.Getenv("GOSYM_SOLVER_LOG"); dir != "" {
			os.MkdirAll(dir, 0o755)
			if f, err := os.Create(fmt.Sprintf("%s/w%d.smt2", dir, i)); err == nil {
				s.log = f
			}
		}
		wk := &worker{id: i, s: s, w: w, in: newInterp(w)}
		ex.workers[i] = wk
		wg.Add(1)
		go func() {
			defer wg.Done()
			wk.err = wk.initPackages(initRoots)
		}()
	}
	wg.Wait()
	for _, wk := range ex.workers {
		if wk.err != nil {
			return nil, wk.err
		}
	}
	return ex, nil
}

func (ex *explorer) close() {
	for _, wk := range ex.workers {
		wk.s.close()
	}
}

// findHarness locates a package-level function by "pkgpath.Name".
func (w *world) findHarness(pkgPath, name string) *ssa.Function {
	p := w.ssaPkgs[pkgPath]
	if p == nil {
		return nil
	}
	return p.Func(name)
}

func (ex *explorer) run(fn *ssa.Function, name string, hargs ...value) *harnessResult {
	h := harness{name: name, fn: fn}
	if len(hargs) == 1 {
		h.hasArg = true
		h.arg = hargs[0].(int)
	}
	return ex.runMany([]harness{h}, nil)[0]
}

type workItem struct {
	h   int
	pre prefix
}

// runMany explores all harnesses with one shared pool of workers: the work
// list holds (harness, decision prefix) items, so both many small harnesses
// and one harness with many paths keep all workers busy.
func (ex *explorer) runMany(hs []harness, progress func(*harnessResult)) []*harnessResult {
	results := make([]*harnessResult, len(hs))
	type hstate struct {
		busy, queued int
		spent        float64 // cumulative seconds of path execution
		started      time.Time
		failSeen     map[string]bool
		done         bool
	}
	states := make([]*hstate, len(hs))
	var mu sync.Mutex
	cond := sync.NewCond(&mu)
	var stack []workItem
	for i := len(hs) - 1; i >= 0; i-- {
		results[i] = &harnessResult{Name: hs[i].name, Status: map[string]int{}, Unsupported: map[string]int{}, EngineErrors: map[string]int{},
			Undis: map[string]int{}, Notes: map[string]int{}, Witness: map[string]model{}, Funcs: map[string]int{}, engineStacks: map[string]string{}}
		states[i] = &hstate{failSeen: map[string]bool{}, queued: 1}
		stack = append(stack, workItem{h: i})
	}
	totalBusy := 0
	finish := func(i int) {
		st := states[i]
		if st.done || st.busy > 0 || st.queued > 0 {
			return
		}
		st.done = true
		r := results[i]
		r.Seconds = st.spent
		sort.Slice(r.Failures, func(a, b int) bool { return r.Failures[a].key() < r.Failures[b].key() })
		if progress != nil {
			progress(r)
		}
	}
	var wg sync.WaitGroup
	for _, wk := range ex.workers {
		wk := wk
		wg.Add(1)
		go func() {
			defer wg.Done()
			for {
				mu.Lock()
				for len(stack) == 0 && totalBusy > 0 {
					cond.Wait()
				}
				if len(stack) == 0 {
					mu.Unlock()
					cond.Broadcast()
					return
				}
				it := stack[len(stack)-1]
				stack = stack[:len(stack)-1]
				st, res := states[it.h], results[it.h]
				st.queued--
				if st.started.IsZero() {
					st.started = time.Now()
				}
				if res.Paths >= ex.b.MaxPaths || st.spent > float64(ex.b.MaxSeconds) {
					res.BudgetHit = true
					finish(it.h)
					mu.Unlock()
					continue
				}
				st.busy++
				totalBusy++
				res.Paths++
				mu.Unlock()

				for f := range wk.in.funcsRun {
					delete(wk.in.funcsRun, f)
				}
				s0 := wk.s.stats
				h := hs[it.h]
				var hargs []value
				if h.hasArg {
					hargs = []value{h.arg}
				}
				tp := time.Now()
				p, status, detail := wk.runPath(h.fn, h.name, it.pre, ex.b, hargs)
				d := wk.s.stats

				mu.Lock()
				st.spent += time.Since(tp).Seconds()
				st.busy--
				totalBusy--
				res.Solver.Queries += d.Queries - s0.Queries
				res.Solver.Sat += d.Sat - s0.Sat
				res.Solver.Unsat += d.Unsat - s0.Unsat
				res.Solver.Unknown += d.Unknown - s0.Unknown
				res.Solver.Errors += d.Errors - s0.Errors
				res.Solver.Seconds += d.Seconds - s0.Seconds
				for f, n := range wk.in.funcsRun {
					res.Funcs[f.String()] += n
				}
				res.Status[status]++
				switch status {
				case "unsupported":
					res.Unsupported[detail]++
				case "engine-error":
					k := detail
					if i := strings.IndexByte(k, '\n'); i > 0 {
						k = k[:i]
					}
					res.EngineErrors[k]++
					if _, ok := res.engineStacks[k]; !ok {
						res.engineStacks[k] = detail
					}
				case "unwind", "replay-divergence":
					res.Undis[status+": "+detail]++
				}
				res.Decisions += p.stats.Decisions
				res.Obligations += p.stats.Obligations
				res.Trivial += p.stats.ObligationsTrivial
				res.Discharged += p.stats.Discharged
				res.Candidates += p.stats.Candidates
				res.Undischarged += p.stats.Undischarged
				res.FeasQueries += p.stats.FeasQueries
				res.ModelHits += p.stats.ModelHits
				res.IntervalHits += p.stats.IntervalHits
				res.Steps += p.steps
				for _, u := range p.undis {
					res.Undis[u]++
				}
				for k, v := range p.notes {
					res.Notes[k] += v
				}
				for _, f := range p.fails {
					if !st.failSeen[f.key()] {
						st.failSeen[f.key()] = true
						res.Failures = append(res.Failures, f)
					}
				}
				for k, m := range p.witness {
					if _, ok := res.Witness[k]; !ok {
						res.Witness[k] = m
					}
				}
				for i := len(p.children) - 1; i >= 0; i-- {
					stack = append(stack, workItem{h: it.h, pre: p.children[i]})
					st.queued++
				}
				finish(it.h)
				mu.Unlock()
				cond.Broadcast()
			}
		}()
	}
	wg.Wait()
	for i := range hs {
		mu.Lock()
		states[i].busy, states[i].queued = 0, 0
		if states[i].started.IsZero() {
			states[i].started = time.Now()
		}
		finish(i)
		mu.Unlock()
	}
	return results
}

func (wk *worker) runPath(fn *ssa.Function, name string, pre prefix, b bounds, hargs []value) (p *pathCtx, status, detail string) {
	in := wk.in
	if in.globalDirty {
		// a previous path wrote package-level state: rebuild this worker's globals
		wk.in = newInterp(wk.w)
		in = wk.in
		if err := wk.initPackages(initRoots); err != nil {
			fmt.Fprintln(os.Stderr, "re-init failed:", err)
		}
	}
	p = newPathCtx(wk.s, pre, name)
	p.maxSteps = b.MaxSteps
	in.p = p
	in.frozenOn = false
	in.writes = nil
	in.permuteMaps = false
	in.permuteMode = 0
	in.depth = 0
	in.top = nil
	in.bufSeq = 0
	status = "ok"
	func() {
		defer func() {
			r := recover()
			if r == nil {
				return
			}
			switch x := r.(type) {
			case pathAbort:
				status, detail = x.status, x.detail
			case unsupportedErr:
				status, detail = "unsupported", x.what
			case engineErr:
				status, detail = "engine-error", x.msg+"\n"+x.stack
			case targetPanic:
				status = "panic"
				msg := panicString(x.v)
				detail = msg
				site := x.site
				if site == "" {
					site = "?"
				}
				p.recordFailure("panic", classifyPanic(msg), site, x.stack, p.modelNow())
				p.fails[len(p.fails)-1].Msg = msg
			default:
				status, detail = "engine-error", fmt.Sprint(r)
			}
		}()
		wk.lastResult = in.call(nil, 0, fn, append([]value{}, hargs...))
	}()
	func() {
		defer func() {
			if r := recover(); r != nil {
				if status == "ok" {
					status, detail = "engine-error", "finish: "+fmt.Sprint(r)
				}
			}
		}()
		if status == "ok" || status == "panic" {
			p.finish()
		}
	}()
	for _, w := range in.writes {
		if w.Global {
			in.globalDirty = true
		}
	}
	return p, status, detail
}

func classifyPanic(msg string) string {
	switch {
	case strings.Contains(msg, "nil pointer") || strings.Contains(msg, "nil map") || strings.Contains(msg, "nil interface"):
		return "nil-deref"
	case strings.Contains(msg, "out of range") || strings.Contains(msg, "slice bounds"):
		return "bounds"
	case strings.Contains(msg, "interface conversion"):
		return "type-assert"
	case strings.Contains(msg, "divide by zero"):
		return "div-zero"
	}
	return "explicit"
}

// expand turns a parametrised harness (VerifP_X with VerifP_X_N) into its instances.
func (ex *explorer) expand(h harness) ([]harness, error) {
	if h.param == nil {
		return []harness{h}, nil
	}
	wk := ex.workers[0]
	_, status, detail := wk.runPath(h.param, h.name+"_N", prefix{}, ex.b, nil)
	if status != "ok" {
		return nil, fmt.Errorf("%s_N: %s %s", h.name, status, detail)
	}
	n, ok := wk.lastResult.(int)
	if !ok {
		return nil, fmt.Errorf("%s_N did not return a concrete int", h.name)
	}
	var nameFn *ssa.Function
	if p := ex.w.ssaPkgs[h.pkg]; p != nil {
		nameFn = p.Func(h.fn.Name() + "_Name")
	}
	var out []harness
	for i := 0; i < n; i++ {
		hi := h
		hi.name = fmt.Sprintf("%s#%d", h.name, i)
		if nameFn != nil {
			if _, status, _ := wk.runPath(nameFn, h.name+"_Name", prefix{}, ex.b, []value{i}); status == "ok" {
				if s, ok := wk.lastResult.(string); ok {
					hi.name = fmt.Sprintf("%s#%d:%s", h.name, i, s)
				}
			}
		}
		hi.arg = i
		hi.hasArg = true
		out = append(out, hi)
	}
	return out, nil
}

func (ex *explorer) runH(h harness) *harnessResult {
	return ex.runMany([]harness{h}, nil)[0]
}
