package main

// Exploration loop: workers (one interpreter + one solver each) consume a
// shared stack of decision prefixes (DESIGN.md appendix B.3).

import (
	"fmt"
	"os"
	"sort"
	"strings"
	"sync"
	"time"

	"golang.org/x/tools/go/ssa"
)

type bounds struct {
	MaxPaths   int   `json:"max_paths"`
	MaxSteps   int64 `json:"max_steps_per_path"`
	TimeoutMs  int   `json:"solver_timeout_ms"`
	Workers    int   `json:"workers"`
	MaxSeconds int   `json:"max_seconds"`
}

type harnessResult struct {
	Name         string            `json:"harness"`
	Paths        int               `json:"paths"`
	Status       map[string]int    `json:"path_end_status"`
	Decisions    int               `json:"decisions"`
	Obligations  int               `json:"obligations"`
	Trivial      int               `json:"obligations_concrete"`
	Discharged   int               `json:"discharged"`
	Candidates   int               `json:"candidates"`
	Undischarged int               `json:"undischarged"`
	Unsupported  map[string]int    `json:"unsupported,omitempty"`
	EngineErrors map[string]int    `json:"engine_errors,omitempty"`
	Undis        map[string]int    `json:"undischarged_detail,omitempty"`
	Notes        map[string]int    `json:"notes,omitempty"`
	Failures     []*failure        `json:"-"`
	Witness      map[string]model  `json:"-"`
	Steps        int64             `json:"ssa_instructions_executed"`
	Funcs        map[string]int    `json:"-"`
	Seconds      float64           `json:"seconds"`
	BudgetHit    bool              `json:"path_budget_hit"`
	Solver       solverStats       `json:"solver"`
	FeasQueries  int               `json:"feasibility_queries"`
	ModelHits    int               `json:"feasibility_by_model"`
	engineStacks map[string]string
}

type worker struct {
	id  int
	in  *interp
	s   *solver
	w   *world
	err error
}

func newInterp(w *world) *interp {
	in := &interp{w: w, prog: w.prog, globals: map[*ssa.Global]*value{}, fnInfos: map[*ssa.Function]*fnInfo{},
		funcsRun: map[*ssa.Function]int{}, opaque: map[string]interface{}{}}
	rt := w.prog.ImportedPackage("runtime")
	if rt != nil {
		in.rtErrString = rt.Type("errorString").Object().Type()
	}
	return in
}

// initPackages runs the package initialisers of the interpreted region.
func (wk *worker) initPackages(roots []string) (err error) {
	in := wk.in
	p := newPathCtx(wk.s, prefix{}, "<init>")
	p.maxSteps = 200_000_000
	in.p = p
	defer func() {
		if r := recover(); r != nil {
			err = fmt.Errorf("package init failed: %v", describePanic(r))
		}
	}()
	for _, path := range roots {
		pkg := wk.w.ssaPkgs[path]
		if pkg == nil {
			continue
		}
		if f := pkg.Func("init"); f != nil {
			in.call(nil, 0, f, nil)
		}
	}
	in.snapshotGlobals()
	return nil
}

func describePanic(r interface{}) string {
	switch x := r.(type) {
	case targetPanic:
		return "target panic: " + panicString(x.v) + "\n" + x.stack
	case unsupportedErr:
		return "unsupported: " + x.what + "\n" + x.stack
	case engineErr:
		return "engine error: " + x.msg + "\n" + x.stack
	case pathAbort:
		return "abort: " + x.status + " " + x.detail
	}
	return fmt.Sprint(r)
}

func panicString(v value) string {
	switch x := v.(type) {
	case iface:
		if x.t == nil {
			return "nil"
		}
		if s, ok := x.v.(string); ok {
			return s
		}
		if p, ok := x.v.(*value); ok && p != nil {
			if st, ok := (*p).(structure); ok && len(st) > 0 {
				if s, ok := st[0].(string); ok {
					return s
				}
			}
		}
		return x.t.String() + ": " + toString(x.v)
	case string:
		return x
	}
	return toString(v)
}

var initRoots = []string{
	"sort", "strings", "bytes", "unicode/utf8", "errors", "strconv", "slices", "unicode",
	repoMod + "/decoder", repoMod + "/validator", repoMod + "/schemacontext", repoMod + "/reference", repoMod + "/schema", repoMod + "/lang",
	repoMod + "/decoder/internal/schemahelper", repoMod + "/decoder/internal/walker", repoMod + "/decoder/internal/ast",
	"github.com/hashicorp/hcl/v2/json",
}

type explorer struct {
	w       *world
	b       bounds
	workers []*worker
	solver  string
}

func newExplorer(w *world, b bounds, solverName string) (*explorer, error) {
	ex := &explorer{w: w, b: b, solver: solverName}
	var wg sync.WaitGroup
	ex.workers = make([]*worker, b.Workers)
	for i := 0; i < b.Workers; i++ {
		s, err := newSolver(solverName, b.TimeoutMs)
		if err != nil {
			return nil, err
		}
		wk := &worker{id: i, s: s, w: w, in: newInterp(w)}
		ex.workers[i] = wk
		wg.Add(1)
		go func() {
			defer wg.Done()
			wk.err = wk.initPackages(initRoots)
		}()
	}
	wg.Wait()
	for _, wk := range ex.workers {
		if wk.err != nil {
			return nil, wk.err
		}
	}
	return ex, nil
}

func (ex *explorer) close() {
	for _, wk := range ex.workers {
		wk.s.close()
	}
}

// findHarness locates a package-level function by "pkgpath.Name".
func (w *world) findHarness(pkgPath, name string) *ssa.Function {
	p := w.ssaPkgs[pkgPath]
	if p == nil {
		return nil
	}
	return p.Func(name)
}

func (ex *explorer) run(fn *ssa.Function, name string) *harnessResult {
	res := &harnessResult{Name: name, Status: map[string]int{}, Unsupported: map[string]int{}, EngineErrors: map[string]int{},
		Undis: map[string]int{}, Notes: map[string]int{}, Witness: map[string]model{}, Funcs: map[string]int{}, engineStacks: map[string]string{}}
	t0 := time.Now()
	var mu sync.Mutex
	cond := sync.NewCond(&mu)
	stack := []prefix{{}}
	busy := 0
	failSeen := map[string]bool{}
	deadline := t0.Add(time.Duration(ex.b.MaxSeconds) * time.Second)
	var wg sync.WaitGroup
	for _, wk := range ex.workers {
		wk := wk
		for f := range wk.in.funcsRun {
			delete(wk.in.funcsRun, f)
		}
		s0 := wk.s.stats
		wg.Add(1)
		go func() {
			defer wg.Done()
			for {
				mu.Lock()
				for len(stack) == 0 && busy > 0 {
					cond.Wait()
				}
				if len(stack) == 0 {
					mu.Unlock()
					cond.Broadcast()
					break
				}
				if res.Paths >= ex.b.MaxPaths || time.Now().After(deadline) {
					res.BudgetHit = true
					stack = nil
					mu.Unlock()
					cond.Broadcast()
					break
				}
				pre := stack[len(stack)-1]
				stack = stack[:len(stack)-1]
				busy++
				res.Paths++
				mu.Unlock()

				p, status, detail := wk.runPath(fn, name, pre, ex.b)

				mu.Lock()
				busy--
				res.Status[status]++
				switch status {
				case "unsupported":
					res.Unsupported[detail]++
				case "engine-error":
					k := detail
					if i := strings.IndexByte(k, '\n'); i > 0 {
						k = k[:i]
					}
					res.EngineErrors[k]++
					if _, ok := res.engineStacks[k]; !ok {
						res.engineStacks[k] = detail
					}
				case "unwind", "replay-divergence":
					res.Undis[status+": "+detail]++
				}
				res.Decisions += p.stats.Decisions
				res.Obligations += p.stats.Obligations
				res.Trivial += p.stats.ObligationsTrivial
				res.Discharged += p.stats.Discharged
				res.Candidates += p.stats.Candidates
				res.Undischarged += p.stats.Undischarged
				res.FeasQueries += p.stats.FeasQueries
				res.ModelHits += p.stats.ModelHits
				res.Steps += p.steps
				for _, u := range p.undis {
					res.Undis[u]++
				}
				for k, v := range p.notes {
					res.Notes[k] += v
				}
				for _, f := range p.fails {
					if !failSeen[f.key()] {
						failSeen[f.key()] = true
						res.Failures = append(res.Failures, f)
					}
				}
				for k, m := range p.witness {
					if _, ok := res.Witness[k]; !ok {
						res.Witness[k] = m
					}
				}
				// children in reverse so that the first alternative is explored first
				for i := len(p.children) - 1; i >= 0; i-- {
					stack = append(stack, p.children[i])
				}
				mu.Unlock()
				cond.Broadcast()
			}
			mu.Lock()
			d := wk.s.stats
			res.Solver.Queries += d.Queries - s0.Queries
			res.Solver.Sat += d.Sat - s0.Sat
			res.Solver.Unsat += d.Unsat - s0.Unsat
			res.Solver.Unknown += d.Unknown - s0.Unknown
			res.Solver.Errors += d.Errors - s0.Errors
			res.Solver.Seconds += d.Seconds - s0.Seconds
			for f, n := range wk.in.funcsRun {
				res.Funcs[f.String()] += n
			}
			mu.Unlock()
		}()
	}
	wg.Wait()
	res.Seconds = time.Since(t0).Seconds()
	sort.Slice(res.Failures, func(i, j int) bool { return res.Failures[i].key() < res.Failures[j].key() })
	return res
}

func (wk *worker) runPath(fn *ssa.Function, name string, pre prefix, b bounds) (p *pathCtx, status, detail string) {
	in := wk.in
	if in.globalDirty {
		// a previous path wrote package-level state: rebuild this worker's globals
		wk.in = newInterp(wk.w)
		in = wk.in
		if err := wk.initPackages(initRoots); err != nil {
			fmt.Fprintln(os.Stderr, "re-init failed:", err)
		}
	}
	p = newPathCtx(wk.s, pre, name)
	p.maxSteps = b.MaxSteps
	in.p = p
	in.frozenOn = false
	in.writes = nil
	in.permuteMaps = false
	in.depth = 0
	in.top = nil
	in.bufSeq = 0
	status = "ok"
	func() {
		defer func() {
			r := recover()
			if r == nil {
				return
			}
			switch x := r.(type) {
			case pathAbort:
				status, detail = x.status, x.detail
			case unsupportedErr:
				status, detail = "unsupported", x.what
			case engineErr:
				status, detail = "engine-error", x.msg+"\n"+x.stack
			case targetPanic:
				status = "panic"
				msg := panicString(x.v)
				detail = msg
				site := x.site
				if site == "" {
					site = "?"
				}
				p.recordFailure("panic", classifyPanic(msg), site, x.stack, p.modelNow())
				p.fails[len(p.fails)-1].Msg = msg
			default:
				status, detail = "engine-error", fmt.Sprint(r)
			}
		}()
		in.call(nil, 0, fn, nil)
	}()
	func() {
		defer func() {
			if r := recover(); r != nil {
				if status == "ok" {
					status, detail = "engine-error", "finish: "+fmt.Sprint(r)
				}
			}
		}()
		if status == "ok" || status == "panic" {
			p.finish()
		}
	}()
	for _, w := range in.writes {
		if w.Global {
			in.globalDirty = true
		}
	}
	return p, status, detail
}

func classifyPanic(msg string) string {
	switch {
	case strings.Contains(msg, "nil pointer") || strings.Contains(msg, "nil map") || strings.Contains(msg, "nil interface"):
		return "nil-deref"
	case strings.Contains(msg, "out of range") || strings.Contains(msg, "slice bounds"):
		return "bounds"
	case strings.Contains(msg, "interface conversion"):
		return "type-assert"
	case strings.Contains(msg, "divide by zero"):
		return "div-zero"
	}
	return "explicit"
}
