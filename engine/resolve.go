package main

// Position-resolved byte reads. A symbolic string is usually a concatenation
// of constant pieces (token texts) and small variables (stretched gaps,
// inserted lines). Reading a byte at a symbolic index first decides — with
// linear arithmetic only — which piece the index falls into and, for a
// constant piece, at which offset; the byte is then concrete. This keeps the
// string theory out of the byte-scanning loops (recoverLeftBytes etc.).

import (
	"go/types"
	"unicode/utf8"

	"golang.org/x/tools/go/ssa"
)

type piece struct {
	t     *term
	start *term // offset of the piece inside the whole string
	n     *term
}

// flatten returns the pieces of s together with a base offset to add to
// indices (for substr terms).
func flatten(s *term) (ps []piece, base *term, ok bool) {
	base = mkInt(0)
	for s.op == "str.substr" {
		base = tAdd(base, s.args[1])
		s = s.args[0]
	}
	var parts []*term
	switch {
	case s.op == "str.++":
		parts = s.args
	default:
		parts = []*term{s}
	}
	off := mkInt(0)
	for _, a := range parts {
		n := tLen(a)
		ps = append(ps, piece{t: a, start: off, n: n})
		off = tAdd(off, n)
	}
	return ps, base, true
}

// readByte returns the byte of s at idx (bounds already obliged by the caller).
func (in *interp) readByte(s *term, idx *term) value {
	if r := tAt(s, idx); r.isConst() {
		return uint8(r.i)
	}
	ps, base, _ := flatten(s)
	i := tAdd(base, idx)
	if len(ps) == 1 && !ps[0].t.isConst() {
		return in.readVarByte(ps[0].t, i)
	}
	// which piece?
	var alts []*term
	var idxs []int
	for k, p := range ps {
		if p.n.isConst() && p.n.i == 0 {
			continue
		}
		c := tAnd(tCmp(">=", i, p.start), tCmp("<", i, tAdd(p.start, p.n)))
		if c.isConst() && !c.b {
			continue
		}
		alts = append(alts, c)
		idxs = append(idxs, k)
	}
	if len(alts) == 0 {
		in.boundsPanic("index out of range (resolved read)")
	}
	k := idxs[in.p.decide(alts, "byte-piece")]
	p := ps[k]
	j := tSub(i, p.start)
	if p.t.isConst() {
		if j.isConst() {
			return uint8(p.t.s[j.i])
		}
		L := len(p.t.s)
		// all bytes equal? no need to fork
		same := true
		for q := 1; q < L; q++ {
			if p.t.s[q] != p.t.s[0] {
				same = false
				break
			}
		}
		if same {
			return uint8(p.t.s[0])
		}
		offAlts := make([]*term, L)
		for q := 0; q < L; q++ {
			offAlts[q] = tEq(j, mkInt(int64(q)))
		}
		q := in.p.decide(offAlts, "byte-offset")
		return uint8(p.t.s[q])
	}
	return in.readVarByte(p.t, j)
}

func (in *interp) readVarByte(v *term, j *term) value {
	if v.op == "var" {
		if c, ok := in.uniformVars()[v.s]; ok {
			return c
		}
	}
	return intVal(app("str.to_code", sInt, app("str.at", sStr, v, j)), types.Uint8)
}

// uniformVars: string variables all of whose bytes are one known byte (stretched gaps: blanks).
func (in *interp) uniformVars() map[string]uint8 {
	m, ok := in.opaque["uniform"].(map[string]uint8)
	if !ok || in.opaque["uniform-path"] != in.p {
		m = map[string]uint8{}
		in.opaque["uniform"] = m
		in.opaque["uniform-path"] = in.p
	}
	return m
}

// ---------------------------------------------------------------------------
// utf8 decoding over resolved bytes

func init() {
	stubTable["unicode/utf8.DecodeRune"] = stubDecodeRune
	stubTable["unicode/utf8.DecodeRuneInString"] = stubDecodeRune
	stubTable["unicode/utf8.DecodeLastRune"] = stubDecodeLastRune
	stubTable["unicode/utf8.DecodeLastRuneInString"] = stubDecodeLastRune
}

func strAndLen(v value) (*term, *term) {
	t := anyStrTerm(v)
	return t, tLen(t)
}

func (in *interp) concreteLen(n *term, max int, what string) int {
	if n.isConst() {
		return int(n.i)
	}
	// decide n among 0..max-1 or ">= max"
	alts := make([]*term, max+1)
	for k := 0; k < max; k++ {
		alts[k] = tEq(n, mkInt(int64(k)))
	}
	alts[max] = tCmp(">=", n, mkInt(int64(max)))
	return in.p.decide(alts, what)
}

func stubDecodeRune(in *interp, fr *frame, fn *ssa.Function, args []value) value {
	s, n := strAndLen(args[0])
	if s.isConst() {
		r, sz := utf8.DecodeRuneInString(s.s)
		return tuple{r, sz}
	}
	avail := in.concreteLen(n, 4, "utf8-avail")
	if avail == 0 {
		return tuple{int32(utf8.RuneError), 0}
	}
	b0 := in.readByte(s, mkInt(0))
	c0, ok := b0.(uint8)
	if !ok {
		// a byte of a symbolic variable
		if in.branch(tCmp("<", intTerm(b0), mkInt(0x80)), "utf8-ascii") {
			return tuple{symInt{intTerm(b0), types.Int32}, 1}
		}
		panic(unsupported("utf8 decoding of a symbolic non-ASCII byte"))
	}
	if c0 < 0x80 {
		return tuple{int32(c0), 1}
	}
	buf := []byte{c0}
	for k := 1; k < 4 && k < avail+0 || (avail == 4 && k < 4); k++ {
		if k >= 4 {
			break
		}
		if avail < 4 && k >= avail {
			break
		}
		bk := in.readByte(s, mkInt(int64(k)))
		ck, ok := bk.(uint8)
		if !ok {
			break
		}
		buf = append(buf, ck)
	}
	r, sz := utf8.DecodeRune(buf)
	return tuple{r, sz}
}

func stubDecodeLastRune(in *interp, fr *frame, fn *ssa.Function, args []value) value {
	s, n := strAndLen(args[0])
	if s.isConst() {
		r, sz := utf8.DecodeLastRuneInString(s.s)
		return tuple{r, sz}
	}
	avail := in.concreteLen(n, 4, "utf8-avail")
	if avail == 0 {
		return tuple{int32(utf8.RuneError), 0}
	}
	b0 := in.readByte(s, tSub(n, mkInt(1)))
	c0, ok := b0.(uint8)
	if !ok {
		if in.branch(tCmp("<", intTerm(b0), mkInt(0x80)), "utf8-ascii") {
			return tuple{symInt{intTerm(b0), types.Int32}, 1}
		}
		panic(unsupported("utf8 decoding of a symbolic non-ASCII byte"))
	}
	if c0 < 0x80 {
		return tuple{int32(c0), 1}
	}
	buf := []byte{c0}
	for k := 2; k <= 4 && k <= avail; k++ {
		bk := in.readByte(s, tSub(n, mkInt(int64(k))))
		ck, ok := bk.(uint8)
		if !ok {
			break
		}
		buf = append([]byte{ck}, buf...)
		if utf8.RuneStart(ck) {
			break
		}
	}
	r, sz := utf8.DecodeLastRune(buf)
	return tuple{r, sz}
}

// ---------------------------------------------------------------------------
// resolving substrings before they enter string predicates

// locate decides which piece position pos falls into (a position equal to the
// total length is "past the end": k == len(ps)) and, inside a constant piece,
// at which concrete offset.
func (in *interp) locate(ps []piece, total *term, pos *term) (k int, off *term) {
	var alts []*term
	var idxs []int
	for i, p := range ps {
		if p.n.isConst() && p.n.i == 0 {
			continue
		}
		c := tAnd(tCmp(">=", pos, p.start), tCmp("<", pos, tAdd(p.start, p.n)))
		if c.isConst() && !c.b {
			continue
		}
		alts = append(alts, c)
		idxs = append(idxs, i)
	}
	cEnd := tEq(pos, total)
	if !(cEnd.isConst() && !cEnd.b) {
		alts = append(alts, cEnd)
		idxs = append(idxs, len(ps))
	}
	if len(alts) == 0 {
		panic(unsupported("locate: position outside the string"))
	}
	k = idxs[in.p.decide(alts, "substr-piece")]
	if k == len(ps) {
		return k, mkInt(0)
	}
	p := ps[k]
	j := tSub(pos, p.start)
	if p.t.isConst() && !j.isConst() {
		L := len(p.t.s)
		offAlts := make([]*term, L)
		for q := 0; q < L; q++ {
			offAlts[q] = tEq(j, mkInt(int64(q)))
		}
		j = mkInt(int64(in.p.decide(offAlts, "substr-offset")))
	}
	return k, j
}

// blanks returns a string of m copies of byte c (m symbolic): a fresh uniform variable.
func (in *interp) uniformOfLen(c uint8, m *term) *term {
	if m.isConst() {
		b := make([]byte, m.i)
		for i := range b {
			b[i] = c
		}
		return mkStr(string(b))
	}
	z := in.p.newVar("u", sStr)
	in.p.assume(tEq(tLen(z), m))
	in.p.assume(tInRe(z, "(re.* (str.to_re "+smtStringLit(string([]byte{c}))+"))"))
	in.uniformVars()[z.s] = c
	return z
}

// resolveStr rewrites substr-of-concatenation terms into concatenations of
// constants and small variables by deciding where the end points fall.
func (in *interp) resolveStr(t *term) *term {
	if t.isConst() || t.op == "var" {
		return t
	}
	switch t.op {
	case "str.++":
		changed := false
		args := make([]*term, len(t.args))
		for i, a := range t.args {
			args[i] = in.resolveStr(a)
			if args[i] != a {
				changed = true
			}
		}
		if !changed {
			return t
		}
		return tConcat(args...)
	case "str.substr":
		ps, base, _ := flatten(t)
		if len(ps) == 1 && ps[0].t.op != "var" && !ps[0].t.isConst() {
			return t
		}
		total := mkInt(0)
		for _, p := range ps {
			total = tAdd(total, p.n)
		}
		n := t.lenHint
		if n == nil {
			n = t.args[2]
		}
		lo := base
		hi := tAdd(lo, n)
		if z := tEq(n, mkInt(0)); !z.isConst() {
			if in.branch(z, "substr-empty") {
				return mkStr("")
			}
		} else if z.b {
			return mkStr("")
		}
		k1, j1 := in.locate(ps, total, lo)
		k2, j2 := in.locate(ps, total, hi)
		var out []*term
		for k := k1; k <= k2 && k < len(ps); k++ {
			p := ps[k]
			from, to := mkInt(0), p.n
			if k == k1 {
				from = j1
			}
			if k == k2 {
				to = j2
			}
			out = append(out, in.pieceSlice(p, from, to))
		}
		return tConcat(out...)
	}
	return t
}

func (in *interp) pieceSlice(p piece, from, to *term) *term {
	if p.t.isConst() && from.isConst() && to.isConst() {
		if from.i <= to.i && to.i <= int64(len(p.t.s)) {
			return mkStr(p.t.s[from.i:to.i])
		}
		return mkStr("")
	}
	if p.t.op == "var" {
		if c, ok := in.uniformVars()[p.t.s]; ok {
			if from.isConst() && from.i == 0 && to == p.n {
				return p.t
			}
			return in.uniformOfLen(c, tSub(to, from))
		}
	}
	if from.isConst() && from.i == 0 && to == p.n {
		return p.t
	}
	return tSubstr(p.t, from, tSub(to, from))
}

func hasSubstr(t *term) bool {
	if t.op == "str.substr" {
		return true
	}
	for _, a := range t.args {
		if hasSubstr(a) {
			return true
		}
	}
	return false
}

// rs resolves a string term that is about to enter a predicate.
func (in *interp) rs(t *term) *term {
	if t.isConst() || !hasSubstr(t) {
		return t
	}
	return in.resolveStr(t)
}
