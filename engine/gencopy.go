package main

// Generator of the C17 harnesses: for every type of package schema with a
// Copy() method, a harness that builds a value with every field populated
// (from go/types, at check time — a field added tomorrow is included), calls
// Copy() and asserts equality per field, independence and no write to the
// original.

import (
	"fmt"
	"go/types"
	"os"
	"sort"
	"strings"

	"golang.org/x/tools/go/packages"
)

type copyGen struct {
	empty   bool // containers are non-nil but empty
	pkg     *types.Package
	imports map[string]string // path -> name
	n       int
	impls   map[string][]types.Type // interface name -> implementations in schema/lang
	all     []*types.Package
}

func (g *copyGen) qual(p *types.Package) string {
	if p == g.pkg {
		return ""
	}
	g.imports[p.Path()] = p.Name()
	return p.Name()
}

func (g *copyGen) ts(T types.Type) string { return types.TypeString(T, g.qual) }

func (g *copyGen) name(base string) string {
	g.n++
	return fmt.Sprintf("%s%d", base, g.n)
}

func (g *copyGen) implementations(it *types.Named) []types.Type {
	key := it.String()
	if r, ok := g.impls[key]; ok {
		return r
	}
	iface := it.Underlying().(*types.Interface)
	var out []types.Type
	for _, p := range g.all {
		sc := p.Scope()
		for _, n := range sc.Names() {
			tn, ok := sc.Lookup(n).(*types.TypeName)
			if !ok || tn.IsAlias() {
				continue
			}
			if p != g.pkg && !tn.Exported() {
				continue
			}
			T := tn.Type()
			if _, isI := T.Underlying().(*types.Interface); isI {
				continue
			}
			if nt, ok := T.(*types.Named); ok && nt.TypeParams().Len() > 0 {
				continue
			}
			if types.Implements(T, iface) {
				out = append(out, T)
			} else if types.Implements(types.NewPointer(T), iface) {
				out = append(out, types.NewPointer(T))
			}
		}
	}
	sort.Slice(out, func(i, j int) bool { return out[i].String() < out[j].String() })
	g.impls[key] = out
	return out
}

// expr returns a Go expression of type T with every field populated.
// choice: whether interface-typed positions fork over all implementations.
func (g *copyGen) expr(T types.Type, depth int, choice bool, pre *strings.Builder) string {
	T = types.Unalias(T)
	// full population (two elements per container) down to depth 3, one element per container
	// below that down to depth 8: recursive types (targetables in targetables, bodies in blocks in
	// bodies) are populated two levels deeper than their own Copy() has to recurse
	if depth > 8 {
		return g.zero(T)
	}
	if n, ok := T.(*types.Named); ok && n.Obj().Pkg() != nil {
		switch n.Obj().Pkg().Path() + "." + n.Obj().Name() {
		case "github.com/zclconf/go-cty/cty.Type":
			g.qual(n.Obj().Pkg())
			return "cty.String"
		case "github.com/zclconf/go-cty/cty.Value":
			g.qual(n.Obj().Pkg())
			return `cty.StringVal("v")`
		}
	}
	switch u := T.Underlying().(type) {
	case *types.Basic:
		var e string
		switch {
		case u.Info()&types.IsBoolean != 0:
			e = fmt.Sprintf("verifBool(%q)", g.name("b"))
		case u.Info()&types.IsString != 0:
			e = fmt.Sprintf("verifString(%q, 3, \"a-z\")", g.name("s"))
		case u.Info()&types.IsInteger != 0:
			e = fmt.Sprintf("verifInt(%q, 0, 9)", g.name("i"))
		case u.Info()&types.IsFloat != 0:
			e = "1.5"
		default:
			return g.zero(T)
		}
		if _, named := T.(*types.Named); named || u.Kind() != types.Bool && u.Kind() != types.String && u.Kind() != types.Int {
			return fmt.Sprintf("%s(%s)", g.ts(T), e)
		}
		return e
	case *types.Pointer:
		if _, isStruct := u.Elem().Underlying().(*types.Struct); isStruct {
			inner := g.expr(u.Elem(), depth+1, false, pre)
			if strings.HasPrefix(inner, g.ts(u.Elem())+"{") {
				return "&" + inner
			}
		}
		v := g.name("p")
		fmt.Fprintf(pre, "\t%s := %s\n", v, g.expr(u.Elem(), depth+1, false, pre))
		return "&" + v
	case *types.Struct:
		var b strings.Builder
		b.WriteString(g.ts(T) + "{")
		first := true
		for i := 0; i < u.NumFields(); i++ {
			f := u.Field(i)
			if !f.Exported() && f.Pkg() != g.pkg {
				continue
			}
			if _, isFunc := f.Type().Underlying().(*types.Signature); isFunc {
				continue
			}
			if !first {
				b.WriteString(", ")
			}
			first = false
			b.WriteString(f.Name() + ": " + g.expr(f.Type(), depth+1, false, pre))
		}
		b.WriteString("}")
		return b.String()
	case *types.Slice:
		if depth > 7 {
			return g.zero(T)
		}
		if g.empty {
			return g.ts(T) + "{}"
		}
		if depth > 3 {
			return fmt.Sprintf("%s{%s}", g.ts(T), g.expr(u.Elem(), depth+1, false, pre))
		}
		// built by append into a larger backing array: length 2, capacity 5 (a Copy() that sizes its
		// result by capacity, or shares the spare room, shows)
		return fmt.Sprintf("append(make(%s, 0, 5), %s, %s)", g.ts(T), g.expr(u.Elem(), depth+1, false, pre), g.expr(u.Elem(), depth+1, false, pre))
	case *types.Array:
		return g.zero(T)
	case *types.Map:
		if depth > 7 {
			return g.zero(T)
		}
		k1, k2 := `"k1"`, `"k2"`
		if b, ok := u.Key().Underlying().(*types.Basic); !ok || b.Info()&types.IsString == 0 || g.empty {
			return g.ts(T) + "{}"
		}
		if _, named := u.Key().(*types.Named); named {
			k1 = g.ts(u.Key()) + "(" + k1 + ")"
			k2 = g.ts(u.Key()) + "(" + k2 + ")"
		}
		if depth > 3 {
			return fmt.Sprintf("%s{%s: %s}", g.ts(T), k1, g.expr(u.Elem(), depth+1, false, pre))
		}
		return fmt.Sprintf("%s{%s: %s, %s: %s}", g.ts(T), k1, g.expr(u.Elem(), depth+1, false, pre), k2, g.expr(u.Elem(), depth+1, false, pre))
	case *types.Interface:
		n, ok := T.(*types.Named)
		if !ok || n.Obj().Pkg() == nil {
			return "nil"
		}
		impls := g.implementations(n)
		if len(impls) == 0 {
			return "nil"
		}
		if !choice || depth > 2 {
			// a fixed, simple representative
			pick := impls[0]
			for _, im := range impls {
				s := im.String()
				if strings.HasSuffix(s, ".Keyword") || strings.HasSuffix(s, ".RootStep") || strings.HasSuffix(s, ".StaticStep") || strings.HasSuffix(s, ".DefaultValue") {
					pick = im
				}
			}
			return g.expr(pick, depth+1, false, pre)
		}
		v := g.name("itf")
		fmt.Fprintf(pre, "\tvar %s %s\n\tswitch verifChoice(%q, %d) {\n", v, g.ts(T), v, len(impls))
		for i, im := range impls {
			var p2 strings.Builder
			e := g.expr(im, depth+1, false, &p2)
			fmt.Fprintf(pre, "\tcase %d:\n%s\t\t%s = %s\n", i, indentLines(p2.String(), "\t"), v, e)
		}
		fmt.Fprintf(pre, "\t}\n")
		return v
	}
	return g.zero(T)
}

func indentLines(s, pre string) string {
	if s == "" {
		return ""
	}
	ls := strings.Split(strings.TrimRight(s, "\n"), "\n")
	for i := range ls {
		ls[i] = pre + ls[i]
	}
	return strings.Join(ls, "\n") + "\n"
}

func (g *copyGen) zero(T types.Type) string {
	switch T.Underlying().(type) {
	case *types.Basic:
		b := T.Underlying().(*types.Basic)
		switch {
		case b.Info()&types.IsBoolean != 0:
			return "false"
		case b.Info()&types.IsString != 0:
			return `""`
		default:
			return "0"
		}
	case *types.Struct, *types.Array:
		return g.ts(T) + "{}"
	}
	return "nil"
}

// topExpr populates the value under test: like expr, but interface-typed
// fields directly inside it fork over all implementations.
func (g *copyGen) topExpr(T types.Type, pre *strings.Builder) string {
	T = types.Unalias(T)
	ptr := false
	if p, ok := T.(*types.Pointer); ok {
		T = p.Elem()
		ptr = true
	}
	var e string
	switch u := T.Underlying().(type) {
	case *types.Struct:
		var b strings.Builder
		b.WriteString(g.ts(T) + "{")
		first := true
		for i := 0; i < u.NumFields(); i++ {
			f := u.Field(i)
			if _, isFunc := f.Type().Underlying().(*types.Signature); isFunc {
				continue
			}
			if !first {
				b.WriteString(", ")
			}
			first = false
			b.WriteString(f.Name() + ": " + g.fieldExpr(f.Type(), pre))
		}
		b.WriteString("}")
		e = b.String()
	case *types.Slice:
		if g.empty {
			e = g.ts(T) + "{}"
		} else {
			e = fmt.Sprintf("%s{%s, %s}", g.ts(T), g.fieldExpr(u.Elem(), pre), g.fieldExpr(u.Elem(), pre))
		}
	case *types.Map:
		e = g.expr(T, 1, false, pre)
	default:
		e = g.expr(T, 1, true, pre)
	}
	if ptr {
		if strings.HasPrefix(e, g.ts(T)+"{") {
			return "&" + e
		}
		v := g.name("p")
		fmt.Fprintf(pre, "\t%s := %s\n", v, e)
		return "&" + v
	}
	return e
}

func (g *copyGen) fieldExpr(T types.Type, pre *strings.Builder) string {
	if n, ok := types.Unalias(T).(*types.Named); ok {
		if _, isI := n.Underlying().(*types.Interface); isI {
			return g.expr(T, 1, true, pre)
		}
	}
	// slices/maps of interfaces: first element forks, the rest fixed
	switch u := types.Unalias(T).Underlying().(type) {
	case *types.Slice:
		if g.empty {
			return g.ts(T) + "{}"
		}
		if n, ok := types.Unalias(u.Elem()).(*types.Named); ok {
			if _, isI := n.Underlying().(*types.Interface); isI {
				return fmt.Sprintf("%s{%s, %s}", g.ts(T), g.expr(u.Elem(), 1, true, pre), g.expr(u.Elem(), 2, false, pre))
			}
		}
	}
	return g.expr(T, 1, false, pre)
}

const copySkipTypes = "schema.Constraint,schema.Address,lang.Address,schema.AddressStep,lang.AddressStep,cty.Type,cty.Value,schema.Default,lang.Path,lang.MarkupContent,hcl.Range"

// generateCopyHarnesses returns the source of /repo/schema/zz_verif_gen_copy.go.
func generateCopyHarnesses() ([]byte, error) {
	cfg := &packages.Config{
		Mode: packages.NeedTypes | packages.NeedImports | packages.NeedDeps | packages.NeedName,
		Dir:  moduleDir,
		Env:  append(os.Environ(), "GOFLAGS=-mod=mod", "GOPROXY=off", "GOSUMDB=off", "GOTOOLCHAIN=local"),
	}
	pkgs, err := packages.Load(cfg, repoMod+"/schema", repoMod+"/lang")
	if err != nil {
		return nil, err
	}
	var schemaPkg, langPkg *types.Package
	for _, p := range pkgs {
		if len(p.Errors) > 0 {
			return nil, fmt.Errorf("loading %s: %v", p.PkgPath, p.Errors[0])
		}
		switch p.PkgPath {
		case repoMod + "/schema":
			schemaPkg = p.Types
		case repoMod + "/lang":
			langPkg = p.Types
		}
	}
	if schemaPkg == nil || langPkg == nil {
		return nil, fmt.Errorf("schema/lang packages not loaded")
	}
	g := &copyGen{pkg: schemaPkg, imports: map[string]string{}, impls: map[string][]types.Type{}, all: []*types.Package{schemaPkg, langPkg}}
	var body strings.Builder
	sc := schemaPkg.Scope()
	for _, n := range sc.Names() {
		tn, ok := sc.Lookup(n).(*types.TypeName)
		if !ok || tn.IsAlias() {
			continue
		}
		T := tn.Type()
		if _, isI := T.Underlying().(*types.Interface); isI {
			continue
		}
		// find a Copy method on T or *T
		var recv types.Type
		for _, cand := range []types.Type{T, types.NewPointer(T)} {
			ms := types.NewMethodSet(cand)
			if sel := ms.Lookup(schemaPkg, "Copy"); sel != nil {
				sig := sel.Type().(*types.Signature)
				if sig.Params().Len() == 0 && sig.Results().Len() == 1 {
					recv = cand
					break
				}
			}
		}
		if recv == nil {
			continue
		}
		g.n = 0
		var pre strings.Builder
		e := g.topExpr(recv, &pre)
		fmt.Fprintf(&body, "// generated from go/types: %s\nfunc VerifH_C01C17_Copy_%s() {\n%s\to := %s\n", recv, n, pre.String(), e)
		fmt.Fprintf(&body, "\tverifFreeze()\n\tc := o.Copy()\n")
		fmt.Fprintf(&body, "\tverifDeepEqualAssert(c, %s(o), \"C17:Copy(%s)\")\n", g.resultConv(recv, schemaPkg), n)
		fmt.Fprintf(&body, "\tverifIndependentAssert(c, o, \"C17:Copy(%s)-shares\", %q)\n", n, copySkipTypes)
		fmt.Fprintf(&body, "\tverifNoWrites(\"C17/C04:Copy(%s)-writes-original\", false)\n\tverifReach(\"end\")\n}\n\n", n)
		// the variant with non-nil but empty containers (a copy that only copies non-empty containers would alias these)
		if _, isStruct := T.Underlying().(*types.Struct); isStruct {
			g.empty = true
			g.n = 0
			var preE strings.Builder
			eE := g.topExpr(recv, &preE)
			g.empty = false
			fmt.Fprintf(&body, "func VerifH_C01C17_CopyEmpty_%s() {\n%s\to := %s\n\tverifFreeze()\n\tc := o.Copy()\n", n, preE.String(), eE)
			fmt.Fprintf(&body, "\tverifDeepEqualAssert(c, %s(o), \"C17:CopyEmpty(%s)\")\n", g.resultConv(recv, schemaPkg), n)
			fmt.Fprintf(&body, "\tverifIndependentAssert(c, o, \"C17:CopyEmpty(%s)-shares\", %q)\n", n, copySkipTypes)
			fmt.Fprintf(&body, "\tverifReach(\"end\")\n}\n\n")
		}
		// the all-zero variant
		if _, isPtr := recv.(*types.Pointer); isPtr {
			fmt.Fprintf(&body, "func VerifH_C01C17_CopyZero_%s() {\n\to := &%s{}\n\tc := o.Copy()\n\tverifDeepEqualAssert(c, o, \"C17:CopyZero(%s)\")\n\tverifReach(\"end\")\n}\n\n", n, n, n)
		} else if _, isStruct := T.Underlying().(*types.Struct); isStruct {
			fmt.Fprintf(&body, "func VerifH_C01C17_CopyZero_%s() {\n\to := %s{}\n\tc := o.Copy()\n\tverifDeepEqualAssert(c, %s(o), \"C17:CopyZero(%s)\")\n\tverifReach(\"end\")\n}\n\n", n, n, g.resultConv(recv, schemaPkg), n)
		}
	}
	var hdr strings.Builder
	hdr.WriteString("// Code generated by gosym (gencopy.go) from go/types at check time; DO NOT EDIT.\n\npackage schema\n\nimport (\n")
	var paths []string
	for p := range g.imports {
		paths = append(paths, p)
	}
	sort.Strings(paths)
	for _, p := range paths {
		fmt.Fprintf(&hdr, "\t%s %q\n", g.imports[p], p)
	}
	hdr.WriteString(")\n\n")
	for _, p := range paths {
		// keep imports used even if an expression was elided
		fmt.Fprintf(&hdr, "var _ = %s\n", importUse(p, g.imports[p]))
	}
	hdr.WriteString("\n")
	return []byte(hdr.String() + body.String()), nil
}

func importUse(path, name string) string {
	switch path {
	case "github.com/zclconf/go-cty/cty":
		return "cty.String"
	case "github.com/hashicorp/hcl/v2":
		return "hcl.InitialPos"
	case repoMod + "/lang":
		return "lang.PlainText"
	case "github.com/zclconf/go-cty/cty/function":
		return "function.New"
	}
	return name + ".init"
}

// resultConv: Copy() of a constraint returns the interface type; compare at that type.
func (g *copyGen) resultConv(recv types.Type, pkg *types.Package) string {
	ms := types.NewMethodSet(recv)
	sel := ms.Lookup(pkg, "Copy")
	res := sel.Type().(*types.Signature).Results().At(0).Type()
	if types.Identical(res, recv) {
		return ""
	}
	return g.ts(res)
}
