package main

// Native boundary: marshalling between interpreter values and reflect
// values, native call-outs on concrete arguments, opaque native handles.
//
// A function of a package outside the interpreted region is executed natively
// (by the Go code linked into the engine: std, cty, textseg, ...) whenever all
// its arguments are concrete and marshalable; otherwise its SSA body is
// interpreted if the package is on the fallback list, else the path ends as
// `unsupported`. Values of native struct types with unexported fields
// (cty.Value, cty.Type, big.Float, function.Function, ...) are opaque handles.

import (
	"fmt"
	"go/types"
	"reflect"
	"sort"
	"strings"
	"unsafe"

	"golang.org/x/tools/go/ssa"
)

var (
	nativeFuncs = map[string]reflect.Value{}
	nativeVars  = map[string]reflect.Value{}
	nativeTypes = map[string]reflect.Type{}
)

// nativeType stands for a native dynamic type that has no go/types
// counterpart the engine could resolve (unexported/generic/anonymous).
type nativeType struct{ rt reflect.Type }

func (t *nativeType) Underlying() types.Type { return t }
func (t *nativeType) String() string         { return "native:" + t.rt.String() }

var nativeTypeIntern = map[reflect.Type]*nativeType{}

type nativeFunc struct{ rv reflect.Value }

type nativeMethod struct {
	name string
	t    *nativeType
}

var errorRType = reflect.TypeOf((*error)(nil)).Elem()
var emptyIfaceRType = reflect.TypeOf((*interface{})(nil)).Elem()

type errNotMarshalable struct{ why string }

func (e errNotMarshalable) Error() string { return "not marshalable: " + e.why }

// ---------------------------------------------------------------------------
// type mapping

func (w *world) isInterpretedPkg(path string) bool {
	if nativeOnly[path] {
		return false
	}
	for _, p := range interpretedPrefixes {
		if path == p || strings.HasPrefix(path, p+"/") {
			return true
		}
	}
	return false
}

var nativeOnly = map[string]bool{
	"github.com/hashicorp/hcl/v2/ext/customdecode": true,
}

var interpretedPrefixes = []string{
	"github.com/hashicorp/hcl-lang",
	"github.com/hashicorp/hcl/v2",
	"github.com/hashicorp/go-multierror",
	"github.com/hashicorp/errwrap",
}

// packages whose SSA bodies may be interpreted when a native call-out is not
// possible (symbolic or interpreter-only arguments).
var fallbackPkgs = map[string]bool{
	"sort": true, "slices": true, "strings": true, "bytes": true, "unicode/utf8": true,
	"unicode": true, "cmp": true, "fmt": true, "maps": true, "math/bits": true,
	"strconv": true, "iter": true, "internal/bytealg": true, "internal/stringslite": true,
	"github.com/zclconf/go-cty/cty/function": false,
	"errors":                                 true,
}

// packages on the fallback list whose initialisers are not executed (they need reflection)
var noInitPkgs = map[string]bool{"errors": true, "fmt": true}

// isOpaque reports whether values of T are kept as native handles.
func (w *world) isOpaque(T types.Type) bool {
	T = types.Unalias(T)
	if r, ok := w.opaqueCache.Load(T); ok {
		return r.(bool)
	}
	r := w.isOpaque1(T)
	w.opaqueCache.Store(T, r)
	return r
}

var forcedOpaque = map[string]bool{
	"strings.Builder": true, "bytes.Buffer": true, "strings.Reader": true, "bytes.Reader": true, "strings.Replacer": true,
	"sync.Mutex": true, "sync.RWMutex": true, "sync.Once": true,
}

func (w *world) isOpaque1(T types.Type) bool {
	n, ok := T.(*types.Named)
	if !ok {
		return false
	}
	obj := n.Obj()
	if obj.Pkg() == nil {
		return false
	}
	path := obj.Pkg().Path()
	if w.isInterpretedPkg(path) {
		return false
	}
	if forcedOpaque[path+"."+obj.Name()] {
		return true
	}
	if fallbackPkgs[path] {
		return false
	}
	if n.TypeParams().Len() > 0 || n.TypeArgs().Len() > 0 {
		return false
	}
	st, ok := n.Underlying().(*types.Struct)
	if !ok {
		return false
	}
	if _, ok := nativeTypes[path+"."+obj.Name()]; !ok {
		return false
	}
	for i := 0; i < st.NumFields(); i++ {
		if !st.Field(i).Exported() {
			return true
		}
	}
	return false
}

func nativeZero(t *types.Named) (value, bool) {
	w := theWorld
	if w == nil || !w.isOpaque(t) {
		return nil, false
	}
	rt, err := w.reflectTypeOf(t)
	if err != nil {
		return nil, false
	}
	return native{reflect.New(rt).Elem()}, true
}

func qualifiedName(n *types.Named) string {
	o := n.Obj()
	if o.Pkg() == nil {
		return o.Name()
	}
	return o.Pkg().Path() + "." + o.Name()
}

func (w *world) reflectTypeOf(T types.Type) (reflect.Type, error) {
	T = types.Unalias(T)
	switch t := T.(type) {
	case *types.Named:
		if t.Obj().Pkg() == nil {
			if t.Obj().Name() == "error" {
				return errorRType, nil
			}
			if t.Obj().Name() == "any" {
				return emptyIfaceRType, nil
			}
		}
		if rt, ok := nativeTypes[qualifiedName(t)]; ok {
			return rt, nil
		}
		return nil, errNotMarshalable{"no native type for " + t.String()}
	case *types.Basic:
		switch t.Kind() {
		case types.Bool, types.UntypedBool:
			return reflect.TypeOf(false), nil
		case types.Int, types.UntypedInt:
			return reflect.TypeOf(int(0)), nil
		case types.Int8:
			return reflect.TypeOf(int8(0)), nil
		case types.Int16:
			return reflect.TypeOf(int16(0)), nil
		case types.Int32, types.UntypedRune:
			return reflect.TypeOf(int32(0)), nil
		case types.Int64:
			return reflect.TypeOf(int64(0)), nil
		case types.Uint:
			return reflect.TypeOf(uint(0)), nil
		case types.Uint8:
			return reflect.TypeOf(uint8(0)), nil
		case types.Uint16:
			return reflect.TypeOf(uint16(0)), nil
		case types.Uint32:
			return reflect.TypeOf(uint32(0)), nil
		case types.Uint64:
			return reflect.TypeOf(uint64(0)), nil
		case types.Uintptr:
			return reflect.TypeOf(uintptr(0)), nil
		case types.Float32:
			return reflect.TypeOf(float32(0)), nil
		case types.Float64, types.UntypedFloat:
			return reflect.TypeOf(float64(0)), nil
		case types.String, types.UntypedString:
			return reflect.TypeOf(""), nil
		}
	case *types.Pointer:
		e, err := w.reflectTypeOf(t.Elem())
		if err != nil {
			return nil, err
		}
		return reflect.PointerTo(e), nil
	case *types.Slice:
		e, err := w.reflectTypeOf(t.Elem())
		if err != nil {
			return nil, err
		}
		return reflect.SliceOf(e), nil
	case *types.Array:
		e, err := w.reflectTypeOf(t.Elem())
		if err != nil {
			return nil, err
		}
		return reflect.ArrayOf(int(t.Len()), e), nil
	case *types.Map:
		k, err := w.reflectTypeOf(t.Key())
		if err != nil {
			return nil, err
		}
		e, err := w.reflectTypeOf(t.Elem())
		if err != nil {
			return nil, err
		}
		return reflect.MapOf(k, e), nil
	case *types.Interface:
		if t.NumMethods() == 0 {
			return emptyIfaceRType, nil
		}
	case *nativeType:
		return t.rt, nil
	}
	return nil, errNotMarshalable{"no native type for " + T.String()}
}

// typesTypeOf maps a reflect type to the program's go/types type.
func (w *world) typesTypeOf(rt reflect.Type) types.Type {
	if t, ok := w.rtCache.Load(rt); ok {
		return t.(types.Type)
	}
	t := w.typesTypeOf1(rt)
	if prev, loaded := w.rtCache.LoadOrStore(rt, t); loaded {
		return prev.(types.Type)
	}
	return t
}

func (w *world) typesTypeOf1(rt reflect.Type) types.Type {
	if rt.PkgPath() != "" && rt.Name() != "" && !strings.Contains(rt.Name(), "[") {
		if p := w.typesPkg(rt.PkgPath()); p != nil {
			if o, ok := p.Scope().Lookup(rt.Name()).(*types.TypeName); ok {
				return o.Type()
			}
		}
		return w.internNative(rt)
	}
	if rt == errorRType {
		return types.Universe.Lookup("error").Type()
	}
	switch rt.Kind() {
	case reflect.Bool:
		return types.Typ[types.Bool]
	case reflect.Int:
		return types.Typ[types.Int]
	case reflect.Int8:
		return types.Typ[types.Int8]
	case reflect.Int16:
		return types.Typ[types.Int16]
	case reflect.Int32:
		return types.Typ[types.Int32]
	case reflect.Int64:
		return types.Typ[types.Int64]
	case reflect.Uint:
		return types.Typ[types.Uint]
	case reflect.Uint8:
		return types.Typ[types.Uint8]
	case reflect.Uint16:
		return types.Typ[types.Uint16]
	case reflect.Uint32:
		return types.Typ[types.Uint32]
	case reflect.Uint64:
		return types.Typ[types.Uint64]
	case reflect.Uintptr:
		return types.Typ[types.Uintptr]
	case reflect.Float32:
		return types.Typ[types.Float32]
	case reflect.Float64:
		return types.Typ[types.Float64]
	case reflect.String:
		return types.Typ[types.String]
	case reflect.Pointer:
		e := w.typesTypeOf(rt.Elem())
		if _, bad := e.(*nativeType); bad {
			return w.internNative(rt)
		}
		return types.NewPointer(e)
	case reflect.Slice:
		e := w.typesTypeOf(rt.Elem())
		if _, bad := e.(*nativeType); bad {
			return w.internNative(rt)
		}
		return types.NewSlice(e)
	case reflect.Array:
		e := w.typesTypeOf(rt.Elem())
		if _, bad := e.(*nativeType); bad {
			return w.internNative(rt)
		}
		return types.NewArray(e, int64(rt.Len()))
	case reflect.Map:
		k := w.typesTypeOf(rt.Key())
		e := w.typesTypeOf(rt.Elem())
		if _, bad := e.(*nativeType); bad {
			return w.internNative(rt)
		}
		if _, bad := k.(*nativeType); bad {
			return w.internNative(rt)
		}
		return types.NewMap(k, e)
	case reflect.Interface:
		if rt.NumMethod() == 0 {
			return types.NewInterfaceType(nil, nil)
		}
	}
	return w.internNative(rt)
}

func (w *world) internNative(rt reflect.Type) types.Type {
	w.mu.Lock()
	defer w.mu.Unlock()
	if t, ok := nativeTypeIntern[rt]; ok {
		return t
	}
	t := &nativeType{rt}
	nativeTypeIntern[rt] = t
	return t
}

func (w *world) typesPkg(path string) *types.Package {
	if p, ok := w.typesPkgs[path]; ok {
		return p
	}
	return nil
}

// ---------------------------------------------------------------------------
// marshalling

type marsh struct {
	in     *interp
	toPtr  map[*value]reflect.Value
	fromPt map[unsafe.Pointer]*value
	hook   func(m *marsh, rv reflect.Value, T types.Type) (value, bool)
}

func (in *interp) newMarsh() *marsh {
	return &marsh{in: in, toPtr: map[*value]reflect.Value{}, fromPt: map[unsafe.Pointer]*value{}}
}

func settable(f reflect.Value) reflect.Value {
	if f.CanSet() {
		return f
	}
	if f.CanAddr() {
		return reflect.NewAt(f.Type(), unsafe.Pointer(f.UnsafeAddr())).Elem()
	}
	return f
}

func readable(f reflect.Value) reflect.Value {
	if f.CanInterface() {
		return f
	}
	if f.CanAddr() {
		return reflect.NewAt(f.Type(), unsafe.Pointer(f.UnsafeAddr())).Elem()
	}
	// copy into an addressable temporary
	tmp := reflect.New(f.Type()).Elem()
	// reflect refuses Set from an unexported field value; go through unsafe
	// by making the parent addressable at the call site instead.
	_ = tmp
	return f
}

func (m *marsh) toNative(v value, T types.Type, rt reflect.Type) (reflect.Value, error) {
	switch x := v.(type) {
	case native:
		if !x.rv.IsValid() {
			return reflect.Zero(rt), nil
		}
		if x.rv.Type() == rt || x.rv.Type().AssignableTo(rt) {
			return x.rv, nil
		}
		if x.rv.Type().ConvertibleTo(rt) && rt.Kind() != reflect.Interface {
			return x.rv.Convert(rt), nil
		}
		return reflect.Value{}, errNotMarshalable{fmt.Sprintf("native %s to %s", x.rv.Type(), rt)}
	case symInt, symBool, symStr:
		return reflect.Value{}, errNotMarshalable{"symbolic scalar"}
	case *nativeFunc:
		if x == nil {
			return reflect.Zero(rt), nil
		}
		return x.rv, nil
	}
	switch rt.Kind() {
	case reflect.Bool:
		b, ok := v.(bool)
		if !ok {
			return reflect.Value{}, errNotMarshalable{fmt.Sprintf("%T as bool", v)}
		}
		return reflect.ValueOf(b).Convert(rt), nil
	case reflect.Int, reflect.Int8, reflect.Int16, reflect.Int32, reflect.Int64:
		r := reflect.New(rt).Elem()
		r.SetInt(asInt64(v))
		return r, nil
	case reflect.Uint, reflect.Uint8, reflect.Uint16, reflect.Uint32, reflect.Uint64, reflect.Uintptr:
		r := reflect.New(rt).Elem()
		r.SetUint(asUint64(v))
		return r, nil
	case reflect.Float32, reflect.Float64:
		r := reflect.New(rt).Elem()
		switch f := v.(type) {
		case float32:
			r.SetFloat(float64(f))
		case float64:
			r.SetFloat(f)
		default:
			return reflect.Value{}, errNotMarshalable{fmt.Sprintf("%T as float", v)}
		}
		return r, nil
	case reflect.String:
		s, ok := v.(string)
		if !ok {
			return reflect.Value{}, errNotMarshalable{fmt.Sprintf("%T as string", v)}
		}
		return reflect.ValueOf(s).Convert(rt), nil
	case reflect.Slice:
		switch x := v.(type) {
		case []value:
			if x == nil {
				return reflect.Zero(rt), nil
			}
			var eT types.Type
			if T != nil {
				if st, ok := T.Underlying().(*types.Slice); ok {
					eT = st.Elem()
				}
			}
			r := reflect.MakeSlice(rt, len(x), len(x))
			for i, e := range x {
				ev, err := m.toNative(e, eT, rt.Elem())
				if err != nil {
					return reflect.Value{}, err
				}
				r.Index(i).Set(ev)
			}
			return r, nil
		case *symBytes:
			c := x.content()
			if !c.isConst() || rt.Elem().Kind() != reflect.Uint8 {
				return reflect.Value{}, errNotMarshalable{"symbolic bytes"}
			}
			return reflect.ValueOf([]byte(c.s)).Convert(rt), nil
		}
	case reflect.Array:
		x, ok := v.(array)
		if ok {
			var eT types.Type
			if T != nil {
				if st, ok := T.Underlying().(*types.Array); ok {
					eT = st.Elem()
				}
			}
			r := reflect.New(rt).Elem()
			for i, e := range x {
				ev, err := m.toNative(e, eT, rt.Elem())
				if err != nil {
					return reflect.Value{}, err
				}
				r.Index(i).Set(ev)
			}
			return r, nil
		}
	case reflect.Map:
		x, ok := v.(*omap)
		if ok {
			if x == nil {
				return reflect.Zero(rt), nil
			}
			var kT, eT types.Type
			if T != nil {
				if mt, ok := T.Underlying().(*types.Map); ok {
					kT, eT = mt.Key(), mt.Elem()
				}
			}
			r := reflect.MakeMapWithSize(rt, x.live)
			for _, e := range x.ents {
				if e.deleted {
					continue
				}
				kv, err := m.toNative(e.k, kT, rt.Key())
				if err != nil {
					return reflect.Value{}, err
				}
				ev, err := m.toNative(e.v, eT, rt.Elem())
				if err != nil {
					return reflect.Value{}, err
				}
				r.SetMapIndex(kv, ev)
			}
			return r, nil
		}
	case reflect.Struct:
		x, ok := v.(structure)
		if ok {
			var st *types.Struct
			if T != nil {
				st, _ = T.Underlying().(*types.Struct)
			}
			if rt.NumField() != len(x) {
				return reflect.Value{}, errNotMarshalable{"struct arity " + rt.String()}
			}
			r := reflect.New(rt).Elem()
			for i, e := range x {
				var fT types.Type
				if st != nil {
					fT = st.Field(i).Type()
				}
				fv, err := m.toNative(e, fT, rt.Field(i).Type)
				if err != nil {
					return reflect.Value{}, err
				}
				settable(r.Field(i)).Set(fv)
			}
			return r, nil
		}
	case reflect.Pointer:
		p, ok := v.(*value)
		if ok {
			if p == nil {
				return reflect.Zero(rt), nil
			}
			if r, ok := m.toPtr[p]; ok {
				return r, nil
			}
			if n, ok := (*p).(native); ok && n.rv.IsValid() && n.rv.CanAddr() && n.rv.Type() == rt.Elem() {
				return n.rv.Addr(), nil
			}
			var eT types.Type
			if T != nil {
				if pt, ok := T.Underlying().(*types.Pointer); ok {
					eT = pt.Elem()
				}
			}
			r := reflect.New(rt.Elem())
			m.toPtr[p] = r
			ev, err := m.toNative(*p, eT, rt.Elem())
			if err != nil {
				return reflect.Value{}, err
			}
			r.Elem().Set(ev)
			return r, nil
		}
	case reflect.Interface:
		x, ok := v.(iface)
		if ok {
			if x.t == nil {
				return reflect.Zero(rt), nil
			}
			drt, err := m.in.w.reflectTypeOf(x.t)
			if err != nil {
				return reflect.Value{}, err
			}
			dv, err := m.toNative(x.v, x.t, drt)
			if err != nil {
				return reflect.Value{}, err
			}
			if !dv.Type().AssignableTo(rt) {
				return reflect.Value{}, errNotMarshalable{fmt.Sprintf("%s does not implement %s", dv.Type(), rt)}
			}
			r := reflect.New(rt).Elem()
			r.Set(dv)
			return r, nil
		}
	case reflect.Func:
		switch x := v.(type) {
		case *ssa.Function:
			if x == nil {
				return reflect.Zero(rt), nil
			}
			return m.in.bridgeFunc(x, rt)
		case *closure:
			return m.in.bridgeFunc(x, rt)
		}
	}
	return reflect.Value{}, errNotMarshalable{fmt.Sprintf("%T as %s", v, rt)}
}

// bridgeFunc wraps an interpreted function as a native func value.
// bridgeSymbolic: a callback handed to native code produced a value that cannot cross the boundary
// (a symbolic scalar). The caller retries by interpreting the callee where that is possible.
type bridgeSymbolic struct{ why string }

func (in *interp) bridgeFunc(fn value, rt reflect.Type) (reflect.Value, error) {
	var sig *types.Signature
	switch f := fn.(type) {
	case *ssa.Function:
		sig = f.Signature
	case *closure:
		sig = f.Fn.Signature
	}
	return reflect.MakeFunc(rt, func(args []reflect.Value) []reflect.Value {
		m := in.newMarsh()
		iargs := make([]value, len(args))
		for i, a := range args {
			iargs[i] = m.fromNative(a, sig.Params().At(i).Type())
		}
		res := in.call(in.top, 0, fn, iargs)
		outs := make([]reflect.Value, rt.NumOut())
		switch rt.NumOut() {
		case 0:
		case 1:
			o, err := m.toNative(res, sig.Results().At(0).Type(), rt.Out(0))
			if err != nil {
				panic(bridgeSymbolic{err.Error()})
			}
			outs[0] = o
		default:
			tp := res.(tuple)
			for i := range outs {
				o, err := m.toNative(tp[i], sig.Results().At(i).Type(), rt.Out(i))
				if err != nil {
					panic(bridgeSymbolic{err.Error()})
				}
				outs[i] = o
			}
		}
		return outs
	}), nil
}

func basicFromReflect(rv reflect.Value, k types.BasicKind) (value, bool) {
	switch k {
	case types.Bool, types.UntypedBool:
		return rv.Bool(), true
	case types.Int, types.UntypedInt:
		return int(rv.Int()), true
	case types.Int8:
		return int8(rv.Int()), true
	case types.Int16:
		return int16(rv.Int()), true
	case types.Int32, types.UntypedRune:
		return int32(rv.Int()), true
	case types.Int64:
		return rv.Int(), true
	case types.Uint:
		return uint(rv.Uint()), true
	case types.Uint8:
		return uint8(rv.Uint()), true
	case types.Uint16:
		return uint16(rv.Uint()), true
	case types.Uint32:
		return uint32(rv.Uint()), true
	case types.Uint64:
		return rv.Uint(), true
	case types.Uintptr:
		return uintptr(rv.Uint()), true
	case types.Float32:
		return float32(rv.Float()), true
	case types.Float64, types.UntypedFloat:
		return rv.Float(), true
	case types.String, types.UntypedString:
		return rv.String(), true
	}
	return nil, false
}

func (m *marsh) fromNative(rv reflect.Value, T types.Type) value {
	w := m.in.w
	if T == nil {
		T = w.typesTypeOf(rv.Type())
	}
	T = types.Unalias(T)
	if m.hook != nil {
		if v, ok := m.hook(m, rv, T); ok {
			return v
		}
	}
	if _, ok := T.(*nativeType); ok {
		return native{rv}
	}
	if w.isOpaque(T) {
		return native{rv}
	}
	switch u := T.Underlying().(type) {
	case *types.Basic:
		if v, ok := basicFromReflect(rv, u.Kind()); ok {
			return v
		}
	case *types.Slice:
		if rv.IsNil() {
			return []value(nil)
		}
		n := rv.Len()
		r := make([]value, n)
		for i := 0; i < n; i++ {
			r[i] = m.fromNative(rv.Index(i), u.Elem())
		}
		return r
	case *types.Array:
		n := rv.Len()
		r := make(array, n)
		for i := 0; i < n; i++ {
			r[i] = m.fromNative(rv.Index(i), u.Elem())
		}
		return r
	case *types.Map:
		if rv.IsNil() {
			return (*omap)(nil)
		}
		om := makeMap(u.Key())
		keys := rv.MapKeys()
		sort.Slice(keys, func(i, j int) bool { return fmt.Sprint(keys[i]) < fmt.Sprint(keys[j]) })
		for _, k := range keys {
			kv := m.fromNative(k, u.Key())
			ev := m.fromNative(rv.MapIndex(k), u.Elem())
			ck, ok := ckey(kv)
			e := &ment{k: kv, v: ev, ck: ck, hasCk: ok}
			om.ents = append(om.ents, e)
			if ok {
				om.idx[ck] = len(om.ents) - 1
			} else {
				om.sym++
			}
			om.live++
		}
		return om
	case *types.Struct:
		if !rv.CanAddr() {
			tmp := reflect.New(rv.Type()).Elem()
			tmp.Set(rv)
			rv = tmp
		}
		n := u.NumFields()
		r := make(structure, n)
		for i := 0; i < n; i++ {
			f := rv.Field(i)
			if !f.CanInterface() {
				f = reflect.NewAt(f.Type(), unsafe.Pointer(f.UnsafeAddr())).Elem()
			}
			r[i] = m.fromNative(f, u.Field(i).Type())
		}
		return r
	case *types.Pointer:
		if w.isOpaque(u.Elem()) {
			return native{rv}
		}
		if rv.IsNil() {
			return (*value)(nil)
		}
		if _, isStruct := u.Elem().Underlying().(*types.Struct); !isStruct {
			if _, isArr := u.Elem().Underlying().(*types.Array); !isArr {
				// pointer to scalar etc.
			}
		}
		key := rv.UnsafePointer()
		if p, ok := m.fromPt[key]; ok {
			return p
		}
		cell := new(value)
		m.fromPt[key] = cell
		*cell = m.fromNative(rv.Elem(), u.Elem())
		return cell
	case *types.Interface:
		if rv.Kind() == reflect.Interface {
			if rv.IsNil() {
				return iface{}
			}
			rv = rv.Elem()
		}
		dt := w.typesTypeOf(rv.Type())
		return iface{t: dt, v: m.fromNative(rv, dt)}
	case *types.Signature:
		if rv.IsNil() {
			return (*ssa.Function)(nil)
		}
		return &nativeFunc{rv: rv}
	case *types.Chan:
		return (*value)(nil)
	}
	panic(unsupported(fmt.Sprintf("fromNative: %s as %s", rv.Type(), T)))
}

func (in *interp) fromNative(rv reflect.Value, T types.Type) value {
	return in.newMarsh().fromNative(rv, T)
}

// ---------------------------------------------------------------------------
// native calls

func (in *interp) nativeGlobal(g *ssa.Global) (value, bool) {
	q := g.Pkg.Pkg.Path() + "." + g.Name()
	pv, ok := nativeVars[q]
	if !ok {
		return nil, false
	}
	defer func() {
		if r := recover(); r != nil {
			if _, ok := r.(unsupportedErr); ok {
				panic(r)
			}
			panic(r)
		}
	}()
	return in.fromNative(pv.Elem(), mustDeref(g.Type())), true
}

// callNative tries to execute fn natively. ok=false means "not possible"
// (caller falls back to interpretation).
func (in *interp) callNative(fn *ssa.Function, args []value) (res value, ok bool) {
	sig := fn.Signature
	var target reflect.Value
	var argOff int
	m := in.newMarsh()
	if recv := sig.Recv(); recv != nil {
		// method: receiver is args[0]
		var rrv reflect.Value
		switch r := args[0].(type) {
		case native:
			rrv = r.rv
		default:
			rt, err := in.w.reflectTypeOf(recv.Type())
			if err != nil {
				return nil, false
			}
			v, err := m.toNative(args[0], recv.Type(), rt)
			if err != nil {
				return nil, false
			}
			rrv = v
		}
		if !rrv.IsValid() {
			return nil, false
		}
		meth := rrv.MethodByName(fn.Name())
		if !meth.IsValid() && rrv.CanAddr() {
			meth = rrv.Addr().MethodByName(fn.Name())
		}
		if !meth.IsValid() {
			// pointer-receiver method on a non-addressable value
			tmp := reflect.New(rrv.Type())
			tmp.Elem().Set(rrv)
			meth = tmp.MethodByName(fn.Name())
		}
		if !meth.IsValid() {
			return nil, false
		}
		target = meth
		argOff = 1
		if _, isNative := args[0].(native); !isNative {
			return in.reflectCallR(m, target, sig, args[1:], args[0], rrv)
		}
	} else {
		if fn.Pkg == nil {
			return nil, false
		}
		f, ok := nativeFuncs[fn.Pkg.Pkg.Path()+"."+fn.Name()]
		if !ok {
			return nil, false
		}
		target = f
	}
	return in.reflectCall(m, target, sig, args[argOff:])
}

func (in *interp) reflectCall(m *marsh, target reflect.Value, sig *types.Signature, args []value) (res value, ok bool) {
	return in.reflectCallR(m, target, sig, args, nil, reflect.Value{})
}

func (in *interp) reflectCallR(m *marsh, target reflect.Value, sig *types.Signature, args []value, recvArg value, recvNative reflect.Value) (res value, ok bool) {
	ft := target.Type()
	nin := ft.NumIn()
	ins := make([]reflect.Value, 0, len(args))
	for i, a := range args {
		var pt reflect.Type
		var T types.Type
		if sig != nil && i < sig.Params().Len() {
			T = sig.Params().At(i).Type()
		}
		if ft.IsVariadic() && i >= nin-1 {
			pt = ft.In(nin - 1) // the slice type; SSA passes the slice itself
			if i != nin-1 {
				return nil, false
			}
		} else {
			if i >= nin {
				return nil, false
			}
			pt = ft.In(i)
		}
		v, err := m.toNative(a, T, pt)
		if err != nil {
			return nil, false
		}
		ins = append(ins, v)
	}
	defer func() {
		if !ok {
			return
		}
		// copy-out: pointer and slice arguments may have been mutated by the callee
		for i, a := range args {
			m.copyBack(a, ins[i])
		}
		if recvArg != nil {
			m.copyBack(recvArg, recvNative)
		}
	}()
	var outs []reflect.Value
	func() {
		defer func() {
			if r := recover(); r != nil {
				switch r.(type) {
				case pathAbort, unsupportedErr, engineErr, targetPanic:
					panic(r)
				}
				// a panic of native library code on these arguments is what the
				// real program would do too
				panic(targetPanic{v: fmt.Sprintf("native panic in %v: %v", target.Type(), r)})
			}
		}()
		if ft.IsVariadic() {
			outs = target.CallSlice(ins)
		} else {
			outs = target.Call(ins)
		}
	}()
	var rts []types.Type
	if sig != nil {
		for i := 0; i < sig.Results().Len(); i++ {
			rts = append(rts, sig.Results().At(i).Type())
		}
	}
	switch len(outs) {
	case 0:
		return nil, true
	case 1:
		var T types.Type
		if len(rts) == 1 {
			T = rts[0]
		}
		return m.fromNative(outs[0], T), true
	}
	tp := make(tuple, len(outs))
	for i, o := range outs {
		var T types.Type
		if i < len(rts) {
			T = rts[i]
		}
		tp[i] = m.fromNative(o, T)
	}
	return tp, true
}

func (in *interp) callNativeFunc(f *nativeFunc, args []value) value {
	if f == nil || !f.rv.IsValid() || f.rv.IsNil() {
		in.nilDeref("call of nil func")
	}
	r, ok := in.reflectCall(in.newMarsh(), f.rv, nil, args)
	if !ok {
		panic(unsupported("call of native func value with unmarshalable arguments: " + f.rv.Type().String()))
	}
	return r
}

func (in *interp) callNativeMethodByName(nm *nativeMethod, args []value) value {
	recv, ok := args[0].(native)
	if !ok {
		panic(unsupported("native method on non-native receiver"))
	}
	meth := recv.rv.MethodByName(nm.name)
	if !meth.IsValid() {
		panic(unsupported("no native method " + nm.name + " on " + recv.rv.Type().String()))
	}
	r, ok := in.reflectCall(in.newMarsh(), meth, nil, args[1:])
	if !ok {
		panic(unsupported("native method " + nm.name + " with unmarshalable arguments"))
	}
	return r
}

func nativeImplements(itf iface, idst *types.Interface) bool {
	n, ok := itf.v.(native)
	if !ok {
		return false
	}
	for i := 0; i < idst.NumMethods(); i++ {
		if !n.rv.MethodByName(idst.Method(i).Name()).IsValid() {
			return false
		}
	}
	return true
}

func (in *interp) nativeMapLookup(instr *ssa.Lookup, x native, idx value) value {
	mt := instr.X.Type().Underlying().(*types.Map)
	m := in.newMarsh()
	kv, err := m.toNative(idx, mt.Key(), x.rv.Type().Key())
	if err != nil {
		panic(unsupported("native map lookup: " + err.Error()))
	}
	r := x.rv.MapIndex(kv)
	ok := r.IsValid()
	var v value
	if ok {
		v = m.fromNative(r, mt.Elem())
	} else {
		v = zero(mt.Elem())
	}
	if instr.CommaOk {
		return tuple{v, ok}
	}
	return v
}

// allConcrete reports whether v contains no symbolic part (shallow for
// references that are marshalled lazily anyway).
func allConcrete(v value, depth int) bool {
	switch x := v.(type) {
	case symInt, symBool, symStr:
		return false
	case *symBytes:
		return x.content().isConst()
	case []value:
		if depth > 4 {
			return true
		}
		for _, e := range x {
			if !allConcrete(e, depth+1) {
				return false
			}
		}
	case structure:
		for _, e := range x {
			if !allConcrete(e, depth+1) {
				return false
			}
		}
	case array:
		for _, e := range x {
			if !allConcrete(e, depth+1) {
				return false
			}
		}
	case iface:
		return allConcrete(x.v, depth+1)
	case *value:
		if x != nil && depth < 3 {
			return allConcrete(*x, depth+1)
		}
	}
	return true
}

// copyBack writes a (possibly mutated) native pointee / slice back into the
// interpreter value it was marshalled from.
func (m *marsh) copyBack(a value, nv reflect.Value) {
	if !nv.IsValid() {
		return
	}
	switch x := a.(type) {
	case *value:
		if x == nil || nv.Kind() != reflect.Pointer || nv.IsNil() {
			return
		}
		if _, isNative := (*x).(native); isNative {
			return
		}
		m2 := m.in.newMarsh()
		m2.fromPt[nv.UnsafePointer()] = x
		nw := m2.fromNative(nv.Elem(), nil)
		if !sameShallow(*x, nw) {
			m.in.noteWrite(x, nw)
			*x = nw
		}
	case *omap:
		// a map argument or receiver (url.Values.Set, ...): entries the callee added, changed or
		// removed are written back, in sorted key order
		if x == nil || nv.Kind() != reflect.Map || nv.IsNil() {
			return
		}
		m2 := m.in.newMarsh()
		keys := nv.MapKeys()
		sort.Slice(keys, func(i, j int) bool { return fmt.Sprint(keys[i].Interface()) < fmt.Sprint(keys[j].Interface()) })
		seen := map[string]bool{}
		for _, k := range keys {
			kv := m2.fromNative(k, nil)
			ck, ok := ckey(kv)
			if !ok {
				return
			}
			seen[ck] = true
			nw := m2.fromNative(nv.MapIndex(k), nil)
			if e := m.in.mapFind(x, kv); e == nil || !sameShallow(e.v, nw) {
				m.in.noteMapWrite(x)
				m.in.mapInsert(x, kv, nw)
			}
		}
		for _, e := range x.ents {
			if !e.deleted && e.hasCk && !seen[e.ck] {
				m.in.noteMapWrite(x)
				m.in.mapDelete(x, e.k)
			}
		}
	case []value:
		if nv.Kind() != reflect.Slice || nv.Len() != len(x) {
			return
		}
		m2 := m.in.newMarsh()
		for i := range x {
			nw := m2.fromNative(nv.Index(i), nil)
			if !sameShallow(x[i], nw) {
				m.in.noteWrite(&x[i], nw)
				x[i] = nw
			}
		}
	}
}

func sameShallow(a, b value) bool {
	defer func() { recover() }()
	switch x := a.(type) {
	case bool, int, int8, int16, int32, int64, uint, uint8, uint16, uint32, uint64, uintptr, float32, float64, string:
		return a == b
	case structure:
		y, ok := b.(structure)
		if !ok || len(x) != len(y) {
			return false
		}
		for i := range x {
			if !sameShallow(x[i], y[i]) {
				return false
			}
		}
		return true
	case []value:
		y, ok := b.([]value)
		if !ok || len(x) != len(y) {
			return false
		}
		for i := range x {
			if !sameShallow(x[i], y[i]) {
				return false
			}
		}
		return true
	case iface:
		y, ok := b.(iface)
		return ok && sameType(x.t, y.t) && (x.t == nil || sameShallow(x.v, y.v))
	case native:
		y, ok := b.(native)
		return ok && nativeEqual(x, y)
	case *value:
		y, ok := b.(*value)
		if !ok {
			return false
		}
		if x == nil || y == nil {
			return x == y
		}
		return sameShallow(*x, *y)
	}
	return false
}
