package main

// Operators with symbolic arms. Structure follows
// golang.org/x/tools/go/ssa/interp/ops.go (BSD licence, see LICENSE.golang).

import (
	"fmt"
	"go/token"
	"go/types"
	"strings"
	"unicode/utf8"

	"golang.org/x/tools/go/ssa"
)

type unsupportedErr struct{ what, stack string }

func unsupported(what string) unsupportedErr { return unsupportedErr{what: what} }

// zero returns a new "zero" value of the specified type.
func zero(t types.Type) value {
	switch t := t.(type) {
	case *types.Basic:
		if t.Kind() == types.UntypedNil {
			panic("untyped nil has no zero value")
		}
		if t.Info()&types.IsUntyped != 0 {
			t = types.Default(t).(*types.Basic)
		}
		switch t.Kind() {
		case types.Bool:
			return false
		case types.Int:
			return int(0)
		case types.Int8:
			return int8(0)
		case types.Int16:
			return int16(0)
		case types.Int32:
			return int32(0)
		case types.Int64:
			return int64(0)
		case types.Uint:
			return uint(0)
		case types.Uint8:
			return uint8(0)
		case types.Uint16:
			return uint16(0)
		case types.Uint32:
			return uint32(0)
		case types.Uint64:
			return uint64(0)
		case types.Uintptr:
			return uintptr(0)
		case types.Float32:
			return float32(0)
		case types.Float64:
			return float64(0)
		case types.Complex64:
			return complex64(0)
		case types.Complex128:
			return complex128(0)
		case types.String:
			return ""
		case types.UnsafePointer:
			return (*value)(nil)
		default:
			panic(fmt.Sprint("zero for unexpected type:", t))
		}
	case *types.Pointer:
		return (*value)(nil)
	case *types.Array:
		a := make(array, t.Len())
		for i := range a {
			a[i] = zero(t.Elem())
		}
		return a
	case *types.Named:
		if z, ok := nativeZero(t); ok {
			return z
		}
		return zero(t.Underlying())
	case *types.Alias:
		return zero(types.Unalias(t))
	case *types.Interface:
		return iface{}
	case *types.Slice:
		return []value(nil)
	case *types.Struct:
		s := make(structure, t.NumFields())
		for i := range s {
			s[i] = zero(t.Field(i).Type())
		}
		return s
	case *types.Tuple:
		if t.Len() == 1 {
			return zero(t.At(0).Type())
		}
		s := make(tuple, t.Len())
		for i := range s {
			s[i] = zero(t.At(i).Type())
		}
		return s
	case *types.Chan:
		return (*value)(nil)
	case *types.Map:
		return (*omap)(nil)
	case *types.Signature:
		return (*ssa.Function)(nil)
	case *types.TypeParam:
		panic("zero of type parameter")
	}
	panic(fmt.Sprint("zero: unexpected ", t))
}

// ---------------------------------------------------------------------------

func (in *interp) boundsPanic(msg string) {
	panic(targetPanic{v: in.runtimeError("runtime error: " + msg)})
}

// checkIndex obliges 0 <= i < n.
func (in *interp) checkIndex(i, n *term, what string) {
	c := tAnd(tCmp(">=", i, mkInt(0)), tCmp("<", i, n))
	if c.isConst() {
		if !c.b {
			in.boundsPanic(fmt.Sprintf("index out of range [%s] with length %s", i, n))
		}
		return
	}
	in.oblige(c, "bounds", what)
}

func (in *interp) checkSlice(lo, hi, max *term, what string) {
	c := tAnd(tCmp(">=", lo, mkInt(0)), tCmp("<=", lo, hi), tCmp("<=", hi, max))
	if c.isConst() {
		if !c.b {
			in.boundsPanic(fmt.Sprintf("slice bounds out of range [%s:%s] with capacity %s", lo, hi, max))
		}
		return
	}
	in.oblige(c, "bounds", what)
}

// pickInt turns a symbolic integer that indexes a concrete container of
// length n into a concrete one by forking over the feasible values.
func (in *interp) pickInt(i value, n int, what string) int {
	if !isSym(i) {
		return int(asInt64(i))
	}
	t := intTerm(i)
	in.checkIndex(t, mkInt(int64(n)), what)
	if n > 600 {
		panic(unsupported("symbolic index into a container of length > 600"))
	}
	alts := make([]*term, n)
	for k := 0; k < n; k++ {
		alts[k] = tEq(t, mkInt(int64(k)))
	}
	return in.p.decide(alts, what)
}

// slice returns x[lo:hi:max].  Any of lo, hi and max may be nil.
func (in *interp) slice(instr *ssa.Slice, x, lo, hi, max value) value {
	sym := isSym(lo) || isSym(hi) || isSym(max)
	switch x := x.(type) {
	case string:
		if !sym {
			l, h := int64(0), int64(len(x))
			if lo != nil {
				l = asInt64(lo)
			}
			if hi != nil {
				h = asInt64(hi)
			}
			if l < 0 || h < l || h > int64(len(x)) {
				in.boundsPanic(fmt.Sprintf("slice bounds out of range [%d:%d] with length %d", l, h, len(x)))
			}
			return x[l:h]
		}
		return in.sliceStr(mkStr(x), lo, hi)
	case symStr:
		return in.sliceStr(x.t, lo, hi)
	case *symBytes:
		l, h, m := mkInt(0), x.n, x.c
		if lo != nil {
			l = intTerm(lo)
		}
		if hi != nil {
			h = intTerm(hi)
		}
		if max != nil {
			m = intTerm(max)
			in.checkSlice(l, h, m, "slice3")
			in.checkSlice(mkInt(0), m, x.c, "slice3-max")
		} else {
			in.checkSlice(l, h, x.c, "slice-bytes")
		}
		return &symBytes{buf: x.buf, off: tAdd(x.off, l), n: tSub(h, l), c: tSub(m, l)}
	case []value:
		Len, Cap := len(x), cap(x)
		l, h, m := 0, Len, Cap
		if max != nil {
			m = in.pickInt0(max, Cap+1, "slice-max")
		}
		if hi != nil {
			h = in.pickInt0(hi, m+1, "slice-hi")
		}
		if lo != nil {
			l = in.pickInt0(lo, h+1, "slice-lo")
		}
		if l < 0 || h < l || m < h || m > Cap {
			in.boundsPanic(fmt.Sprintf("slice bounds out of range [%d:%d:%d] with capacity %d", l, h, m, Cap))
		}
		return x[l:h:m]
	case *value: // *array
		if x == nil {
			in.nilDeref("slice of nil array pointer")
		}
		a := (*x).(array)
		return in.slice(instr, []value(a), lo, hi, max)
	}
	panic(fmt.Sprintf("slice: unexpected X type: %T", x))
}

// pickInt0 is pickInt for a slice bound: valid values are 0..n-1.
func (in *interp) pickInt0(i value, n int, what string) int {
	if !isSym(i) {
		return int(asInt64(i))
	}
	return in.pickInt(i, n, what)
}

func (in *interp) sliceStr(s *term, lo, hi value) value {
	l, h := mkInt(0), tLen(s)
	if lo != nil {
		l = intTerm(lo)
	}
	if hi != nil {
		h = intTerm(hi)
	}
	in.checkSlice(l, h, tLen(s), "slice-string")
	return strVal(tSubstr(s, l, tSub(h, l)))
}

// ---------------------------------------------------------------------------

func isIntKind(k types.BasicKind) bool {
	switch k {
	case types.Int, types.Int8, types.Int16, types.Int32, types.Int64,
		types.Uint, types.Uint8, types.Uint16, types.Uint32, types.Uint64, types.Uintptr:
		return true
	}
	return false
}

func (in *interp) wrapCheck(r *term, k types.BasicKind, what string) {
	if r.isConst() {
		return
	}
	switch k {
	case types.Int, types.Int64:
		return // inputs are bounded far below 2^62 and only added/subtracted; see DESIGN §3.2(a)
	}
	lo, hi := intRange(k)
	in.p.addSide(tAnd(tCmp(">=", r, mkInt(lo)), tCmp("<=", r, mkInt(hi))), what)
}

func (in *interp) binop(op token.Token, t types.Type, x, y value) value {
	switch op {
	case token.EQL:
		return boolVal(in.eqnil(t, x, y))
	case token.NEQ:
		return boolVal(tNot(in.eqnil(t, x, y)))
	}
	if !isSym(x) && !isSym(y) {
		if op == token.QUO || op == token.REM {
			if isIntKind(kindOfValue(y)) && intTerm(y).i == 0 {
				panic(targetPanic{v: in.runtimeError("runtime error: integer divide by zero")})
			}
		}
		return binopConcrete(op, t, x, y)
	}
	// symbolic
	switch x.(type) {
	case string, symStr:
		a, b := strTerm(x), strTerm(y)
		if op != token.ADD {
			a, b = in.rs(a), in.rs(b)
		}
		switch op {
		case token.ADD:
			return strVal(tConcat(a, b))
		case token.LSS:
			return boolVal(tCmp("<", a, b))
		case token.LEQ:
			return boolVal(tCmp("<=", a, b))
		case token.GTR:
			return boolVal(tCmp(">", a, b))
		case token.GEQ:
			return boolVal(tCmp(">=", a, b))
		}
		panic(unsupported("string op " + op.String()))
	case float32, float64, complex64, complex128:
		panic(unsupported("floating point on symbolic values"))
	}
	k := kindOfValue(x)
	if k == types.Invalid {
		k = kindOfValue(y)
	}
	if op == token.SHL || op == token.SHR {
		// shift count may have a different type
		if isSym(y) {
			panic(unsupported("symbolic shift count"))
		}
		a := intTerm(x)
		c := intTerm(y).i
		if c < 0 || c > 40 {
			panic(unsupported("shift count"))
		}
		p := mkInt(int64(1) << uint(c))
		if op == token.SHL {
			r := tMul(a, p)
			in.wrapCheck(r, k, "shl")
			return intVal(r, k)
		}
		lo, _ := intRange(k)
		if lo < 0 {
			in.p.addSide(tCmp(">=", a, mkInt(0)), "shr-of-negative")
		}
		return intVal(app("div", sInt, a, p), k)
	}
	a, b := intTerm(x), intTerm(y)
	switch op {
	case token.ADD:
		r := tAdd(a, b)
		in.wrapCheck(r, k, "add")
		return intVal(r, k)
	case token.SUB:
		r := tSub(a, b)
		in.wrapCheck(r, k, "sub")
		return intVal(r, k)
	case token.MUL:
		if !a.isConst() && !b.isConst() {
			panic(unsupported("symbolic * symbolic"))
		}
		r := tMul(a, b)
		in.wrapCheck(r, k, "mul")
		return intVal(r, k)
	case token.QUO, token.REM:
		if !b.isConst() {
			panic(unsupported("division by a symbolic value"))
		}
		if b.i <= 0 {
			panic(unsupported("division by a non-positive constant"))
		}
		// Go truncates towards zero.
		q := tIte(tCmp(">=", a, mkInt(0)), app("div", sInt, a, b), tNeg(app("div", sInt, tNeg(a), b)))
		if lo, _ := intRange(k); lo >= 0 {
			q = app("div", sInt, a, b)
		}
		if op == token.QUO {
			return intVal(q, k)
		}
		return intVal(tSub(a, tMul(b, q)), k)
	case token.AND:
		// x & (2^k-1)  ==  x mod 2^k for non-negative x
		if b.isConst() && b.i > 0 && (b.i&(b.i+1)) == 0 {
			in.p.addSide(tCmp(">=", a, mkInt(0)), "and-of-negative")
			return intVal(app("mod", sInt, a, mkInt(b.i+1)), k)
		}
		if a.isConst() && a.i > 0 && (a.i&(a.i+1)) == 0 {
			in.p.addSide(tCmp(">=", b, mkInt(0)), "and-of-negative")
			return intVal(app("mod", sInt, b, mkInt(a.i+1)), k)
		}
		// x & 0xC0 style masks on bytes: high bits = x - x mod 2^j
		if b.isConst() && k == types.Uint8 {
			if r, ok := byteMask(a, b.i); ok {
				return intVal(r, k)
			}
		}
		panic(unsupported("bitwise and on symbolic values"))
	case token.OR, token.XOR, token.AND_NOT:
		panic(unsupported("bitwise " + op.String() + " on symbolic values"))
	case token.LSS:
		return boolVal(tCmp("<", a, b))
	case token.LEQ:
		return boolVal(tCmp("<=", a, b))
	case token.GTR:
		return boolVal(tCmp(">", a, b))
	case token.GEQ:
		return boolVal(tCmp(">=", a, b))
	}
	panic(fmt.Sprintf("invalid binary op: %T %s %T", x, op, y))
}

// byteMask encodes a & m for a byte a and a mask of the form 11..100..0.
func byteMask(a *term, m int64) (*term, bool) {
	for j := uint(1); j < 8; j++ {
		if m == (0xff &^ (int64(1)<<j - 1)) {
			return tSub(a, app("mod", sInt, a, mkInt(int64(1)<<j))), true
		}
	}
	return nil, false
}

// eqnil returns the comparison x == y using the equivalence relation
// appropriate for type t.
func (in *interp) eqnil(t types.Type, x, y value) *term {
	switch t.Underlying().(type) {
	case *types.Map, *types.Signature, *types.Slice:
		return mkBool(isNilRef(x) == isNilRef(y) && (isNilRef(x) || sameRef(x, y)))
	}
	return in.equalsT(t, x, y)
}

func sameRef(x, y value) bool {
	// only reachable when comparing two non-nil func/map/slice values via
	// interface{}; Go would panic. Be conservative.
	return false
}

func isNilRef(x value) bool {
	switch x := x.(type) {
	case *omap:
		return x == nil
	case *ssa.Function:
		return x == nil
	case *closure:
		return x == nil
	case *nativeFunc:
		return x == nil
	case []value:
		return x == nil
	case *symBytes:
		return x == nil
	case native:
		if !x.rv.IsValid() {
			return true
		}
		switch x.rv.Kind() {
		case 19 /*Func*/, 21 /*Map*/, 23 /*Slice*/, 22 /*Ptr*/, 20 /*Interface*/ :
			return x.rv.IsNil()
		}
		return false
	}
	panic(fmt.Sprintf("isNilRef: illegal dynamic type: %T", x))
}

func (in *interp) unop(instr *ssa.UnOp, x value) value {
	switch instr.Op {
	case token.ARROW:
		panic(unsupported("channel receive"))
	case token.SUB:
		switch x := x.(type) {
		case symInt:
			r := tNeg(x.t)
			in.wrapCheck(r, x.k, "neg")
			return intVal(r, x.k)
		case int:
			return -x
		case int8:
			return -x
		case int16:
			return -x
		case int32:
			return -x
		case int64:
			return -x
		case uint:
			return -x
		case uint8:
			return -x
		case uint16:
			return -x
		case uint32:
			return -x
		case uint64:
			return -x
		case uintptr:
			return -x
		case float32:
			return -x
		case float64:
			return -x
		case complex64:
			return -x
		case complex128:
			return -x
		}
	case token.MUL:
		switch p := x.(type) {
		case *value:
			if p == nil {
				in.nilDeref("nil pointer dereference")
			}
			return load(mustDeref(instr.X.Type()), p)
		case *byteRef:
			return in.readByte(p.buf.s, p.idx)
		case native:
			// pointer to an opaque native value
			if p.rv.Kind() == 22 && !p.rv.IsNil() {
				return in.fromNative(p.rv.Elem(), mustDeref(instr.X.Type()))
			}
			in.nilDeref("nil pointer dereference")
		}
	case token.NOT:
		switch x := x.(type) {
		case bool:
			return !x
		case symBool:
			return boolVal(tNot(x.t))
		}
	case token.XOR:
		switch x := x.(type) {
		case symInt:
			panic(unsupported("bitwise complement of a symbolic value"))
		case int:
			return ^x
		case int8:
			return ^x
		case int16:
			return ^x
		case int32:
			return ^x
		case int64:
			return ^x
		case uint:
			return ^x
		case uint8:
			return ^x
		case uint16:
			return ^x
		case uint32:
			return ^x
		case uint64:
			return ^x
		case uintptr:
			return ^x
		}
	}
	panic(fmt.Sprintf("invalid unary op %s %T", instr.Op, x))
}

func mustDeref(t types.Type) types.Type {
	if p, ok := t.Underlying().(*types.Pointer); ok {
		return p.Elem()
	}
	panic("mustDeref: not a pointer: " + t.String())
}

// typeAssert checks whether dynamic type of itf is instr.AssertedType.
func (in *interp) typeAssert(instr *ssa.TypeAssert, itf iface) value {
	var v value
	err := ""
	if itf.t == nil {
		err = fmt.Sprintf("interface conversion: interface is nil, not %s", instr.AssertedType)
	} else if idst, ok := instr.AssertedType.Underlying().(*types.Interface); ok {
		v = itf
		if meth, _ := types.MissingMethod(itf.t, idst, true); meth != nil {
			if _, isNT := itf.t.(*nativeType); isNT {
				// unknown native dynamic type: decide by reflection
				if !nativeImplements(itf, idst) {
					err = fmt.Sprintf("interface conversion: %v is not %v: missing method %s", itf.t, idst, meth.Name())
				}
			} else {
				err = fmt.Sprintf("interface conversion: %v is not %v: missing method %s", itf.t, idst, meth.Name())
			}
		}
	} else if types.Identical(itf.t, instr.AssertedType) {
		v = itf.v
	} else {
		err = fmt.Sprintf("interface conversion: interface is %s, not %s", itf.t, instr.AssertedType)
	}
	if err != "" {
		if !instr.CommaOk {
			panic(targetPanic{v: in.runtimeError(err)})
		}
		return tuple{zero(instr.AssertedType), false}
	}
	if instr.CommaOk {
		return tuple{v, true}
	}
	return v
}

// ---------------------------------------------------------------------------
// builtins

func (in *interp) bytesOf(v value) *symBytes {
	switch x := v.(type) {
	case *symBytes:
		return x
	case []value:
		parts := make([]*term, len(x))
		for i, e := range x {
			parts[i] = tFromCode(intTerm(e))
		}
		s := tConcat(parts...)
		n := mkInt(int64(len(x)))
		return &symBytes{buf: in.newBuf(s), off: mkInt(0), n: n, c: n}
	}
	panic(fmt.Sprintf("bytesOf: %T", v))
}

func (in *interp) newBuf(s *term) *byteBuf {
	in.bufSeq++
	return &byteBuf{s: s, id: in.bufSeq}
}

func (sb *symBytes) content() *term { return tSubstr(sb.buf.s, sb.off, sb.n) }

// writeBuf replaces buf[at:at+len(s)] by s.
func (in *interp) writeBuf(buf *byteBuf, at, s *term) {
	total := tLen(buf.s)
	n := tLen(s)
	if in.frozenOn {
		if _, fz := in.frozenBufs[buf]; fz {
			old := in.rs(tSubstr(buf.s, at, n))
			changed := true
			if r, _ := in.p.feasible(tNot(tEq(old, in.rs(s)))); r == rUnsat {
				changed = false
			}
			in.writes = append(in.writes, writeRec{Site: in.site(), Where: in.where(), Kind: "buf", Changed: changed, Stack: in.stack()})
		}
	}
	end := tAdd(at, n)
	buf.s = tConcat(tSubstr(buf.s, mkInt(0), at), s, tSubstr(buf.s, end, tSub(total, end)))
}

func (in *interp) callBuiltin(caller *frame, callpos token.Pos, fn *ssa.Builtin, args []value) value {
	switch fn.Name() {
	case "append":
		if len(args) == 1 {
			return args[0]
		}
		_, sb0 := args[0].(*symBytes)
		_, sb1 := args[1].(*symBytes)
		_, ss1 := args[1].(symStr)
		if sb0 || sb1 || ss1 {
			return in.appendBytes(args[0], args[1])
		}
		if s, ok := args[1].(string); ok {
			arg0 := args[0].([]value)
			in.noteAppend(arg0, len(s))
			for i := 0; i < len(s); i++ {
				arg0 = append(arg0, s[i])
			}
			return arg0
		}
		a0 := args[0].([]value)
		a1 := args[1].([]value)
		in.noteAppend(a0, len(a1))
		// element values of aggregate type must be copied
		if len(a1) > 0 {
			if _, isAgg := a1[0].(structure); isAgg {
				cp := make([]value, len(a1))
				for i := range a1 {
					cp[i] = copyVal(a1[i])
				}
				a1 = cp
			} else if _, isArr := a1[0].(array); isArr {
				cp := make([]value, len(a1))
				for i := range a1 {
					cp[i] = copyVal(a1[i])
				}
				a1 = cp
			}
		}
		return append(a0, a1...)

	case "copy":
		src := args[1]
		switch s := src.(type) {
		case string:
			r := make([]value, len(s))
			for i := 0; i < len(s); i++ {
				r[i] = s[i]
			}
			src = r
		case symStr:
			panic(unsupported("copy from a symbolic string"))
		}
		dst, ok1 := args[0].([]value)
		s2, ok2 := src.([]value)
		if !ok1 || !ok2 {
			panic(unsupported("copy on symbolic byte slices"))
		}
		n := len(dst)
		if len(s2) < n {
			n = len(s2)
		}
		for i := 0; i < n; i++ {
			in.noteWrite(&dst[i], s2[i])
		}
		cp := make([]value, n)
		for i := 0; i < n; i++ {
			cp[i] = copyVal(s2[i])
		}
		return copy(dst, cp)

	case "close":
		panic(unsupported("close"))

	case "delete":
		m := args[0].(*omap)
		if m != nil {
			in.noteMapWrite(m)
			in.mapDelete(m, args[1])
		}
		return nil

	case "clear":
		switch x := args[0].(type) {
		case *omap:
			if x != nil {
				in.noteMapWrite(x)
				for _, e := range x.ents {
					if e.deleted {
						continue
					}
					e.deleted = true
					if e.hasCk {
						delete(x.idx, e.ck)
					}
				}
				x.live, x.sym = 0, 0
			}
		case []value:
			var et types.Type
			if ci, ok := caller.cur.(ssa.CallInstruction); ok && len(ci.Common().Args) == 1 {
				if st, ok := ci.Common().Args[0].Type().Underlying().(*types.Slice); ok {
					et = st.Elem()
				}
			}
			if et == nil && len(x) > 0 {
				panic(unsupported("clear: element type unknown"))
			}
			for i := range x {
				z := zero(et)
				in.noteWrite(&x[i], z)
				x[i] = z
			}
		case *symBytes:
			n := in.concreteLen(x.n, 33, "clear-len")
			if n >= 33 {
				panic(unsupported("clear of more than 32 symbolic bytes"))
			}
			if n > 0 {
				in.writeBuf(x.buf, x.off, mkStr(strings.Repeat("\x00", n)))
			}
		default:
			panic(unsupported(fmt.Sprintf("clear on %T", x)))
		}
		return nil

	case "print", "println":
		return nil

	case "len":
		switch x := args[0].(type) {
		case string:
			return len(x)
		case symStr:
			return intVal(tLen(x.t), types.Int)
		case *symBytes:
			return intVal(x.n, types.Int)
		case array:
			return len(x)
		case *value:
			return len((*x).(array))
		case []value:
			return len(x)
		case *omap:
			return x.len()
		case native:
			return x.rv.Len()
		default:
			panic(fmt.Sprintf("len: illegal operand: %T", x))
		}

	case "cap":
		switch x := args[0].(type) {
		case array:
			return cap(x)
		case *value:
			return cap((*x).(array))
		case []value:
			return cap(x)
		case *symBytes:
			return intVal(x.c, types.Int)
		default:
			panic(fmt.Sprintf("cap: illegal operand: %T", x))
		}

	case "min":
		return in.foldMinMax(args, true)
	case "max":
		return in.foldMinMax(args, false)

	case "panic":
		panic(targetPanic{v: args[0]})

	case "recover":
		return in.doRecover(caller)

	case "ssa:wrapnilchk":
		recv := args[0]
		if p, ok := recv.(*value); ok && p == nil {
			panic(targetPanic{v: in.runtimeError(fmt.Sprintf("value method (%s).%s called using nil *%s pointer", args[1], args[2], args[1]))})
		}
		return recv

	case "ssa:deferstack":
		return &caller.defers
	}
	panic(unsupported("built-in " + fn.Name()))
}

func (in *interp) foldMinMax(args []value, isMin bool) value {
	x := args[0]
	for _, y := range args[1:] {
		if isSym(x) || isSym(y) {
			a, b := intTerm(x), intTerm(y)
			k := kindOfValue(x)
			if isMin {
				x = intVal(tIte(tCmp("<=", a, b), a, b), k)
			} else {
				x = intVal(tIte(tCmp(">=", a, b), a, b), k)
			}
			continue
		}
		if isMin {
			x = min(x, y)
		} else {
			x = max(x, y)
		}
	}
	return x
}

func (in *interp) appendBytes(a0, a1 value) value {
	var add *term
	switch y := a1.(type) {
	case string:
		add = mkStr(y)
	case symStr:
		add = y.t
	case *symBytes:
		add = y.content()
	case []value:
		add = in.bytesOf(y).content()
	}
	var dst *symBytes
	switch x := a0.(type) {
	case *symBytes:
		dst = x
	case []value:
		if x == nil || cap(x) == len(x) {
			dst = in.bytesOf(x)
		} else {
			// concrete slice with spare capacity: writes in place would alias;
			// keep the concrete representation if the addition is concrete too.
			if add.isConst() {
				in.noteAppend(x, len(add.s))
				r := x
				for i := 0; i < len(add.s); i++ {
					r = append(r, add.s[i])
				}
				return r
			}
			panic(unsupported("append of symbolic bytes to a concrete slice with spare capacity"))
		}
	}
	n2 := tAdd(dst.n, tLen(add))
	if in.branch(tCmp("<=", n2, dst.c), "append-in-place") {
		if !(tLen(add).isConst() && tLen(add).i == 0) {
			in.writeBuf(dst.buf, tAdd(dst.off, dst.n), add)
		}
		return &symBytes{buf: dst.buf, off: dst.off, n: n2, c: dst.c}
	}
	nb := in.newBuf(tConcat(dst.content(), add))
	return &symBytes{buf: nb, off: mkInt(0), n: n2, c: n2}
}

// ---------------------------------------------------------------------------
// range iterators

type iter interface {
	next(in *interp) tuple
}

type mapIter struct {
	m     *omap
	i     int
	order []int // optional permutation of entry indices
}

func (it *mapIter) next(in *interp) tuple {
	if it.m == nil {
		return tuple{false, nil, nil}
	}
	if it.order != nil {
		for it.i < len(it.order) {
			e := it.m.ents[it.order[it.i]]
			it.i++
			if !e.deleted {
				return tuple{true, e.k, copyVal(e.v)}
			}
		}
		return tuple{false, nil, nil}
	}
	for it.i < len(it.m.ents) {
		e := it.m.ents[it.i]
		it.i++
		if !e.deleted {
			return tuple{true, e.k, copyVal(e.v)}
		}
	}
	return tuple{false, nil, nil}
}

type stringIter struct {
	s string
	i int
}

func (it *stringIter) next(in *interp) tuple {
	if it.i >= len(it.s) {
		return tuple{false, nil, nil}
	}
	r, n := utf8.DecodeRuneInString(it.s[it.i:])
	i := it.i
	it.i += n
	return tuple{true, i, r}
}

type symStringIter struct {
	s *term
	i *term
}

func (it *symStringIter) next(in *interp) tuple {
	if !in.branch(tCmp("<", it.i, tLen(it.s)), "range-string") {
		return tuple{false, nil, nil}
	}
	bv := in.readByte(it.s, it.i)
	i := it.i
	if c, ok := bv.(uint8); ok {
		if c < 0x80 {
			it.i = tAdd(it.i, mkInt(1))
			return tuple{true, intVal(i, types.Int), int32(c)}
		}
		r := stubDecodeRune(in, nil, nil, []value{strVal(tSubstr(it.s, it.i, tSub(tLen(it.s), it.i)))}).(tuple)
		it.i = tAdd(it.i, mkInt(int64(r[1].(int))))
		return tuple{true, intVal(i, types.Int), r[0]}
	}
	b := intTerm(bv)
	if !in.branch(tCmp("<", b, mkInt(0x80)), "range-string-ascii") {
		panic(unsupported("range over a symbolic string with a non-ASCII byte"))
	}
	it.i = tAdd(it.i, mkInt(1))
	return tuple{true, intVal(i, types.Int), intVal(b, types.Int32)}
}

func (in *interp) rangeIter(x value, t types.Type) iter {
	switch x := x.(type) {
	case *omap:
		it := &mapIter{m: x}
		if x != nil && x.live > 1 {
			switch {
			case in.permuteMaps:
				it.order = in.choosePermutation(x)
			case in.permuteMode == 1 || in.permuteMode == 2:
				var live []int
				for i, e := range x.ents {
					if !e.deleted {
						live = append(live, i)
					}
				}
				if in.permuteMode == 1 {
					for a, b := 0, len(live)-1; a < b; a, b = a+1, b-1 {
						live[a], live[b] = live[b], live[a]
					}
				} else {
					live = append(live[1:], live[0])
				}
				it.order = live
			}
		}
		return it
	case string:
		return &stringIter{s: x}
	case symStr:
		return &symStringIter{s: x.t, i: mkInt(0)}
	}
	panic(fmt.Sprintf("cannot range over %T", x))
}

// ---------------------------------------------------------------------------
// conversions

func (in *interp) conv(t_dst, t_src types.Type, x value) value {
	ut_src := t_src.Underlying()
	ut_dst := t_dst.Underlying()
	switch xs := x.(type) {
	case symInt:
		if bd, ok := ut_dst.(*types.Basic); ok {
			if bd.Info()&types.IsInteger != 0 {
				k := basicKindOf(t_dst)
				lo, hi := intRange(k)
				slo, shi := intRange(xs.k)
				if lo > slo || hi < shi {
					in.p.addSide(tAnd(tCmp(">=", xs.t, mkInt(lo)), tCmp("<=", xs.t, mkInt(hi))), "conv-"+bd.Name())
				}
				return symInt{xs.t, k}
			}
			if bd.Kind() == types.String {
				// string(rune)
				if !in.branch(tAnd(tCmp(">=", xs.t, mkInt(0)), tCmp("<", xs.t, mkInt(0x80))), "rune-to-string-ascii") {
					panic(unsupported("string(rune) of a symbolic non-ASCII rune"))
				}
				return strVal(tFromCode(xs.t))
			}
		}
		panic(unsupported(fmt.Sprintf("conversion of symbolic %s to %s", t_src, t_dst)))
	case symStr:
		switch d := ut_dst.(type) {
		case *types.Basic:
			if d.Kind() == types.String {
				return x
			}
		case *types.Slice:
			if basicKindOf(d.Elem()) == types.Uint8 {
				n := tLen(xs.t)
				return &symBytes{buf: in.newBuf(xs.t), off: mkInt(0), n: n, c: n}
			}
		}
		panic(unsupported(fmt.Sprintf("conversion of symbolic string to %s", t_dst)))
	case *symBytes:
		if d, ok := ut_dst.(*types.Basic); ok && d.Kind() == types.String {
			return strVal(xs.content())
		}
		panic(unsupported(fmt.Sprintf("conversion of symbolic bytes to %s", t_dst)))
	case []value:
		if _, ok := ut_src.(*types.Slice); ok {
			if d, ok := ut_dst.(*types.Basic); ok && d.Kind() == types.String {
				for _, e := range xs {
					if isSym(e) {
						if basicKindOf(ut_src.(*types.Slice).Elem()) == types.Uint8 {
							return strVal(in.bytesOf(xs).content())
						}
						panic(unsupported("[]rune with symbolic elements to string"))
					}
				}
			}
		}
	}
	if _, ok := ut_src.(*types.Slice); ok {
		if _, ok := ut_dst.(*types.Slice); ok {
			return x // identical underlying types
		}
	}
	return convConcrete(t_dst, t_src, x)
}

// ---------------------------------------------------------------------------

func typeString(t types.Type) string {
	return strings.ReplaceAll(t.String(), "github.com/", "")
}
