package main

import "reflect"

type reflectValue = reflect.Value

func reflectDeepEqual(a, b interface{}) bool { return reflect.DeepEqual(a, b) }
