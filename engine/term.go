package main

// Term language of the symbolic engine and its SMT-LIB2 rendering.
//
// Sorts: Bool, Int, String. Go integers of every width are SMT Ints (with
// no-wrap side conditions collected per path, see path.go); Go strings and
// byte slices are SMT Strings whose characters are code points 0..255, one
// per byte.

import (
	"fmt"
	"sort"
	"strconv"
	"strings"
)

type sortKind int

const (
	sBool sortKind = iota
	sInt
	sStr
)

func (s sortKind) String() string {
	switch s {
	case sBool:
		return "Bool"
	case sInt:
		return "Int"
	}
	return "String"
}

type term struct {
	op      string // "const", "var", or an SMT operator
	sort    sortKind
	args    []*term
	i       int64  // const Int
	b       bool   // const Bool
	s       string // const String (raw bytes) or var name
	str     string // cached rendering
	lenHint *term  // for str.substr: its length under the engine's bounds discipline
}

func (t *term) isConst() bool { return t.op == "const" }

func mkInt(i int64) *term  { return &term{op: "const", sort: sInt, i: i} }
func mkBool(b bool) *term  { return &term{op: "const", sort: sBool, b: b} }
func mkStr(s string) *term { return &term{op: "const", sort: sStr, s: s} }
func mkVar(name string, s sortKind) *term {
	return &term{op: "var", sort: s, s: name}
}

var tTrue = mkBool(true)
var tFalse = mkBool(false)

func smtStringLit(s string) string {
	var b strings.Builder
	b.WriteByte('"')
	for i := 0; i < len(s); i++ {
		c := s[i]
		switch {
		case c == '"':
			b.WriteString(`""`)
		case c == '\\' || c < 0x20 || c > 0x7e:
			fmt.Fprintf(&b, `\u{%x}`, c)
		default:
			b.WriteByte(c)
		}
	}
	b.WriteByte('"')
	return b.String()
}

func (t *term) String() string {
	if t.str != "" {
		return t.str
	}
	var r string
	switch t.op {
	case "const":
		switch t.sort {
		case sInt:
			if t.i < 0 {
				r = "(- " + strconv.FormatUint(uint64(-t.i), 10) + ")"
			} else {
				r = strconv.FormatInt(t.i, 10)
			}
		case sBool:
			if t.b {
				r = "true"
			} else {
				r = "false"
			}
		case sStr:
			r = smtStringLit(t.s)
		}
	case "var":
		r = "|" + t.s + "|"
	default:
		var b strings.Builder
		b.WriteByte('(')
		b.WriteString(t.op)
		for _, a := range t.args {
			b.WriteByte(' ')
			b.WriteString(a.String())
		}
		b.WriteByte(')')
		r = b.String()
	}
	t.str = r
	return r
}

// vars collects the free variables of t into set.
func (t *term) vars(set map[string]*term) {
	if t.op == "var" {
		set[t.s] = t
		return
	}
	for _, a := range t.args {
		a.vars(set)
	}
}

func (t *term) size() int {
	n := 1
	for _, a := range t.args {
		n += a.size()
	}
	return n
}

// ---- constructors with constant folding -------------------------------

func app(op string, s sortKind, args ...*term) *term {
	return &term{op: op, sort: s, args: args}
}

func tAdd(a, b *term) *term {
	if a.isConst() && b.isConst() {
		return mkInt(a.i + b.i)
	}
	if a.isConst() && a.i == 0 {
		return b
	}
	if b.isConst() && b.i == 0 {
		return a
	}
	// (x + c1) + c2
	if b.isConst() && a.op == "+" && len(a.args) == 2 && a.args[1].isConst() {
		return tAdd(a.args[0], mkInt(a.args[1].i+b.i))
	}
	if a.isConst() {
		return tAdd(b, a)
	}
	return app("+", sInt, a, b)
}

func tSub(a, b *term) *term {
	if a.isConst() && b.isConst() {
		return mkInt(a.i - b.i)
	}
	if b.isConst() {
		return tAdd(a, mkInt(-b.i))
	}
	if a == b {
		return mkInt(0)
	}
	return app("-", sInt, a, b)
}

func tNeg(a *term) *term {
	if a.isConst() {
		return mkInt(-a.i)
	}
	return app("-", sInt, a)
}

func tMul(a, b *term) *term {
	if a.isConst() && b.isConst() {
		return mkInt(a.i * b.i)
	}
	if a.isConst() && a.i == 1 {
		return b
	}
	if b.isConst() && b.i == 1 {
		return a
	}
	if (a.isConst() && a.i == 0) || (b.isConst() && b.i == 0) {
		return mkInt(0)
	}
	return app("*", sInt, a, b)
}

func tCmp(op string, a, b *term) *term {
	if a.isConst() && b.isConst() {
		if a.sort == sInt {
			switch op {
			case "<":
				return mkBool(a.i < b.i)
			case "<=":
				return mkBool(a.i <= b.i)
			case ">":
				return mkBool(a.i > b.i)
			case ">=":
				return mkBool(a.i >= b.i)
			}
		} else if a.sort == sStr {
			switch op {
			case "<":
				return mkBool(a.s < b.s)
			case "<=":
				return mkBool(a.s <= b.s)
			case ">":
				return mkBool(a.s > b.s)
			case ">=":
				return mkBool(a.s >= b.s)
			}
		}
	}
	if a.sort == sStr {
		switch op {
		case "<":
			return app("str.<", sBool, a, b)
		case "<=":
			return app("str.<=", sBool, a, b)
		case ">":
			return app("str.<", sBool, b, a)
		case ">=":
			return app("str.<=", sBool, b, a)
		}
	}
	return app(op, sBool, a, b)
}

func tEq(a, b *term) *term {
	if a.isConst() && b.isConst() {
		switch a.sort {
		case sInt:
			return mkBool(a.i == b.i)
		case sBool:
			return mkBool(a.b == b.b)
		case sStr:
			return mkBool(a.s == b.s)
		}
	}
	if a == b {
		return tTrue
	}
	if a.sort == sBool {
		if a.isConst() {
			if a.b {
				return b
			}
			return tNot(b)
		}
		if b.isConst() {
			if b.b {
				return a
			}
			return tNot(a)
		}
	}
	return app("=", sBool, a, b)
}

func tNot(a *term) *term {
	if a.isConst() {
		return mkBool(!a.b)
	}
	if a.op == "not" {
		return a.args[0]
	}
	return app("not", sBool, a)
}

func tAnd(ts ...*term) *term {
	var out []*term
	for _, t := range ts {
		if t.isConst() {
			if !t.b {
				return tFalse
			}
			continue
		}
		out = append(out, t)
	}
	switch len(out) {
	case 0:
		return tTrue
	case 1:
		return out[0]
	}
	return app("and", sBool, out...)
}

func tOr(ts ...*term) *term {
	var out []*term
	for _, t := range ts {
		if t.isConst() {
			if t.b {
				return tTrue
			}
			continue
		}
		out = append(out, t)
	}
	switch len(out) {
	case 0:
		return tFalse
	case 1:
		return out[0]
	}
	return app("or", sBool, out...)
}

func tIte(c, a, b *term) *term {
	if c.isConst() {
		if c.b {
			return a
		}
		return b
	}
	return app("ite", a.sort, c, a, b)
}

// strings

func tLen(s *term) *term {
	if s.isConst() {
		return mkInt(int64(len(s.s)))
	}
	if s.op == "str.++" {
		sum := mkInt(0)
		for _, a := range s.args {
			sum = tAdd(sum, tLen(a))
		}
		return sum
	}
	if s.op == "str.substr" && s.lenHint != nil {
		return s.lenHint
	}
	return app("str.len", sInt, s)
}

func tConcat(ts ...*term) *term {
	var out []*term
	for _, t := range ts {
		if t.op == "str.++" {
			for _, a := range t.args {
				out = appendConcat(out, a)
			}
			continue
		}
		out = appendConcat(out, t)
	}
	switch len(out) {
	case 0:
		return mkStr("")
	case 1:
		return out[0]
	}
	return app("str.++", sStr, out...)
}

func appendConcat(out []*term, t *term) []*term {
	if t.isConst() && t.s == "" {
		return out
	}
	if t.isConst() && len(out) > 0 && out[len(out)-1].isConst() {
		out[len(out)-1] = mkStr(out[len(out)-1].s + t.s)
		return out
	}
	return append(out, t)
}

// tSubstr returns s[off:off+n]. The caller guarantees 0<=off, 0<=n,
// off+n<=len(s) on the current path (bounds obligations are checked
// before), so the SMT clamping semantics never matter.
func tSubstr(s, off, n *term) *term {
	if s.isConst() && off.isConst() && n.isConst() {
		if off.i >= 0 && n.i >= 0 && off.i+n.i <= int64(len(s.s)) {
			return mkStr(s.s[off.i : off.i+n.i])
		}
	}
	if n.isConst() && n.i == 0 {
		return mkStr("")
	}
	if off.isConst() && off.i == 0 {
		if l := tLen(s); l == n || (l.isConst() && n.isConst() && l.i == n.i) {
			return s
		}
	}
	// substr of substr
	if s.op == "str.substr" {
		return tSubstr(s.args[0], tAdd(s.args[1], off), n)
	}
	// substr of a concatenation with constant prefix pieces
	if s.op == "str.++" && off.isConst() && n.isConst() {
		// try to resolve inside constant-length pieces
		pos := int64(0)
		for _, a := range s.args {
			if !a.isConst() {
				break
			}
			l := int64(len(a.s))
			if off.i >= pos && off.i+n.i <= pos+l {
				return mkStr(a.s[off.i-pos : off.i-pos+n.i])
			}
			pos += l
		}
	}
	r := app("str.substr", sStr, s, off, n)
	r.lenHint = n
	return r
}

func tAt(s, i *term) *term { // byte value at index as Int
	if s.isConst() && i.isConst() && i.i >= 0 && i.i < int64(len(s.s)) {
		return mkInt(int64(s.s[i.i]))
	}
	if s.op == "str.++" && i.isConst() {
		pos := int64(0)
		for _, a := range s.args {
			if !a.isConst() {
				break
			}
			l := int64(len(a.s))
			if i.i >= pos && i.i < pos+l {
				return mkInt(int64(a.s[i.i-pos]))
			}
			pos += l
		}
	}
	return app("str.to_code", sInt, app("str.at", sStr, s, i))
}

func tFromCode(c *term) *term {
	if c.isConst() && c.i >= 0 && c.i < 256 {
		return mkStr(string([]byte{byte(c.i)}))
	}
	if c.op == "str.to_code" && c.args[0].op == "str.at" {
		return c.args[0]
	}
	return app("str.from_code", sStr, c)
}

func tPrefixOf(p, s *term) *term {
	if p.isConst() && s.isConst() {
		return mkBool(strings.HasPrefix(s.s, p.s))
	}
	if p.isConst() && p.s == "" {
		return tTrue
	}
	return app("str.prefixof", sBool, p, s)
}

func tSuffixOf(p, s *term) *term {
	if p.isConst() && s.isConst() {
		return mkBool(strings.HasSuffix(s.s, p.s))
	}
	if p.isConst() && p.s == "" {
		return tTrue
	}
	return app("str.suffixof", sBool, p, s)
}

func tContains(s, sub *term) *term {
	if sub.isConst() && s.isConst() {
		return mkBool(strings.Contains(s.s, sub.s))
	}
	return app("str.contains", sBool, s, sub)
}

func tIndexOf(s, sub, from *term) *term {
	if s.isConst() && sub.isConst() && from.isConst() && from.i == 0 {
		return mkInt(int64(strings.Index(s.s, sub.s)))
	}
	return app("str.indexof", sInt, s, sub, from)
}

func tFromInt(i *term) *term { // decimal rendering of a non-negative Int
	if i.isConst() && i.i >= 0 {
		return mkStr(strconv.FormatInt(i.i, 10))
	}
	return app("str.from_int", sStr, i)
}

// regex membership: re is raw SMT text (built by reChars etc.)
func tInRe(s *term, re string) *term {
	return &term{op: "str.in_re", sort: sBool, args: []*term{s, {op: "raw", s: re, str: re}}}
}

// reClass builds an SMT regex for a set of bytes given as an alphabet
// description: ranges "a-z0-9_" style, with backslash escapes \t \n \\ \-.
func reClass(alphabet string) string {
	var parts []string
	bs := []byte{}
	esc := func(i *int) byte {
		c := alphabet[*i]
		if c == '\\' && *i+1 < len(alphabet) {
			*i++
			switch alphabet[*i] {
			case 't':
				return '\t'
			case 'n':
				return '\n'
			case 'r':
				return '\r'
			default:
				return alphabet[*i]
			}
		}
		return c
	}
	for i := 0; i < len(alphabet); i++ {
		lo := esc(&i)
		if i+2 < len(alphabet) && alphabet[i+1] == '-' {
			i += 2
			hi := esc(&i)
			parts = append(parts, "(re.range "+smtStringLit(string([]byte{lo}))+" "+smtStringLit(string([]byte{hi}))+")")
			continue
		}
		bs = append(bs, lo)
	}
	for _, c := range bs {
		parts = append(parts, "(str.to_re "+smtStringLit(string([]byte{c}))+")")
	}
	sort.Strings(parts)
	if len(parts) == 1 {
		return parts[0]
	}
	return "(re.union " + strings.Join(parts, " ") + ")"
}

const reAnyByte = `(re.range "\u{0}" "\u{ff}")`

// ---- evaluation under a model ------------------------------------------

type model map[string]interface{} // name -> int64 | bool | string

func (m model) eval(t *term) (interface{}, bool) {
	switch t.op {
	case "const":
		switch t.sort {
		case sInt:
			return t.i, true
		case sBool:
			return t.b, true
		default:
			return t.s, true
		}
	case "var":
		v, ok := m[t.s]
		if !ok {
			switch t.sort {
			case sInt:
				return int64(0), true
			case sBool:
				return false, true
			default:
				return "", true
			}
		}
		return v, true
	}
	args := make([]interface{}, len(t.args))
	for i, a := range t.args {
		if a.op == "raw" {
			return nil, false
		}
		// short-circuit friendly ops evaluate lazily below
		v, ok := m.eval(a)
		if !ok {
			return nil, false
		}
		args[i] = v
	}
	I := func(k int) int64 { return args[k].(int64) }
	B := func(k int) bool { return args[k].(bool) }
	S := func(k int) string { return args[k].(string) }
	switch t.op {
	case "+":
		s := int64(0)
		for k := range args {
			s += I(k)
		}
		return s, true
	case "-":
		if len(args) == 1 {
			return -I(0), true
		}
		return I(0) - I(1), true
	case "*":
		return I(0) * I(1), true
	case "<":
		return I(0) < I(1), true
	case "<=":
		return I(0) <= I(1), true
	case ">":
		return I(0) > I(1), true
	case ">=":
		return I(0) >= I(1), true
	case "=":
		return args[0] == args[1], true
	case "not":
		return !B(0), true
	case "and":
		for k := range args {
			if !B(k) {
				return false, true
			}
		}
		return true, true
	case "or":
		for k := range args {
			if B(k) {
				return true, true
			}
		}
		return false, true
	case "ite":
		if B(0) {
			return args[1], true
		}
		return args[2], true
	case "str.len":
		return int64(len(S(0))), true
	case "str.++":
		var b strings.Builder
		for k := range args {
			b.WriteString(S(k))
		}
		return b.String(), true
	case "str.substr":
		s, off, n := S(0), I(1), I(2)
		if off < 0 || off >= int64(len(s)) || n <= 0 {
			return "", true
		}
		if off+n > int64(len(s)) {
			n = int64(len(s)) - off
		}
		return s[off : off+n], true
	case "str.at":
		s, i := S(0), I(1)
		if i < 0 || i >= int64(len(s)) {
			return "", true
		}
		return s[i : i+1], true
	case "str.to_code":
		s := S(0)
		if len(s) != 1 {
			return int64(-1), true
		}
		return int64(s[0]), true
	case "str.from_code":
		c := I(0)
		if c < 0 || c > 255 {
			return "", true
		}
		return string([]byte{byte(c)}), true
	case "str.prefixof":
		return strings.HasPrefix(S(1), S(0)), true
	case "str.suffixof":
		return strings.HasSuffix(S(1), S(0)), true
	case "str.contains":
		return strings.Contains(S(0), S(1)), true
	case "str.indexof":
		s, sub, from := S(0), S(1), I(2)
		if from < 0 || from > int64(len(s)) {
			return int64(-1), true
		}
		k := strings.Index(s[from:], sub)
		if k < 0 {
			return int64(-1), true
		}
		return int64(k) + from, true
	case "str.<":
		return S(0) < S(1), true
	case "str.<=":
		return S(0) <= S(1), true
	case "str.from_int":
		if I(0) < 0 {
			return "", true
		}
		return strconv.FormatInt(I(0), 10), true
	case "div":
		if I(1) == 0 {
			return nil, false
		}
		return floorDiv(I(0), I(1)), true
	case "mod":
		if I(1) == 0 {
			return nil, false
		}
		return I(0) - I(1)*floorDiv(I(0), I(1)), true
	}
	return nil, false
}

func floorDiv(a, b int64) int64 {
	q := a / b
	if (a%b != 0) && ((a < 0) != (b < 0)) {
		q--
	}
	return q
}
