package main

// Concrete operator tables, taken from golang.org/x/tools/go/ssa/interp
// (v0.29.0, Copyright 2013 The Go Authors, BSD-style licence; see
// LICENSE.golang). Symbolic arms live in ops.go and dispatch here when all
// operands are concrete.

import (
	"fmt"
	"go/constant"
	"go/token"
	"go/types"
	"unsafe"

	"golang.org/x/tools/go/ssa"
)

// If the target program panics, the interpreter panics with this type.
type targetPanic struct {
	v     value
	site  string
	stack string
}

func (p targetPanic) String() string {
	return toString(p.v)
}

// If the target program calls exit, the interpreter panics with this type.
type exitPanic int

// constValue returns the value of the constant with the
// dynamic type tag appropriate for c.Type().
func constValue(c *ssa.Const) value {
	if c.Value == nil {
		return zero(c.Type()) // typed zero
	}
	// c is not a type parameter so it's underlying type is basic.

	if t, ok := c.Type().Underlying().(*types.Basic); ok {
		// TODO(adonovan): eliminate untyped constants from SSA form.
		switch t.Kind() {
		case types.Bool, types.UntypedBool:
			return constant.BoolVal(c.Value)
		case types.Int, types.UntypedInt:
			// Assume sizeof(int) is same on host and target.
			return int(c.Int64())
		case types.Int8:
			return int8(c.Int64())
		case types.Int16:
			return int16(c.Int64())
		case types.Int32, types.UntypedRune:
			return int32(c.Int64())
		case types.Int64:
			return c.Int64()
		case types.Uint:
			// Assume sizeof(uint) is same on host and target.
			return uint(c.Uint64())
		case types.Uint8:
			return uint8(c.Uint64())
		case types.Uint16:
			return uint16(c.Uint64())
		case types.Uint32:
			return uint32(c.Uint64())
		case types.Uint64:
			return c.Uint64()
		case types.Uintptr:
			// Assume sizeof(uintptr) is same on host and target.
			return uintptr(c.Uint64())
		case types.Float32:
			return float32(c.Float64())
		case types.Float64, types.UntypedFloat:
			return c.Float64()
		case types.Complex64:
			return complex64(c.Complex128())
		case types.Complex128, types.UntypedComplex:
			return c.Complex128()
		case types.String, types.UntypedString:
			if c.Value.Kind() == constant.String {
				return constant.StringVal(c.Value)
			}
			return string(rune(c.Int64()))
		}
	}

	panic(fmt.Sprintf("constValue: %s", c))
}

// fitsInt returns true if x fits in type int according to sizes.
func fitsInt(x int64, sizes types.Sizes) bool {
	intSize := sizes.Sizeof(types.Typ[types.Int])
	if intSize < sizes.Sizeof(types.Typ[types.Int64]) {
		maxInt := int64(1)<<((intSize*8)-1) - 1
		minInt := -int64(1) << ((intSize * 8) - 1)
		return minInt <= x && x <= maxInt
	}
	return true
}

// asInt64 converts x, which must be an integer, to an int64.
//
// Callers that need a value directly usable as an int should combine this with fitsInt().
func asInt64(x value) int64 {
	switch x := x.(type) {
	case int:
		return int64(x)
	case int8:
		return int64(x)
	case int16:
		return int64(x)
	case int32:
		return int64(x)
	case int64:
		return x
	case uint:
		return int64(x)
	case uint8:
		return int64(x)
	case uint16:
		return int64(x)
	case uint32:
		return int64(x)
	case uint64:
		return int64(x)
	case uintptr:
		return int64(x)
	}
	panic(fmt.Sprintf("cannot convert %T to int64", x))
}

// asUint64 converts x, which must be an unsigned integer, to a uint64
// suitable for use as a bitwise shift count.
func asUint64(x value) uint64 {
	switch x := x.(type) {
	case uint:
		return uint64(x)
	case uint8:
		return uint64(x)
	case uint16:
		return uint64(x)
	case uint32:
		return uint64(x)
	case uint64:
		return x
	case uintptr:
		return uint64(x)
	}
	panic(fmt.Sprintf("cannot convert %T to uint64", x))
}

// asUnsigned returns the value of x, which must be an integer type, as its equivalent unsigned type,
// and returns true if x is non-negative.
func asUnsigned(x value) (value, bool) {
	switch x := x.(type) {
	case int:
		return uint(x), x >= 0
	case int8:
		return uint8(x), x >= 0
	case int16:
		return uint16(x), x >= 0
	case int32:
		return uint32(x), x >= 0
	case int64:
		return uint64(x), x >= 0
	case uint, uint8, uint32, uint64, uintptr:
		return x, true
	}
	panic(fmt.Sprintf("cannot convert %T to unsigned", x))
}

// zero returns a new "zero" value of the specified type.

// binop implements all arithmetic and logical binary operators for
// numeric datatypes and strings.  Both operands must have identical
// dynamic type.
func binopConcrete(op token.Token, t types.Type, x, y value) value {
	switch op {
	case token.ADD:
		switch x.(type) {
		case int:
			return x.(int) + y.(int)
		case int8:
			return x.(int8) + y.(int8)
		case int16:
			return x.(int16) + y.(int16)
		case int32:
			return x.(int32) + y.(int32)
		case int64:
			return x.(int64) + y.(int64)
		case uint:
			return x.(uint) + y.(uint)
		case uint8:
			return x.(uint8) + y.(uint8)
		case uint16:
			return x.(uint16) + y.(uint16)
		case uint32:
			return x.(uint32) + y.(uint32)
		case uint64:
			return x.(uint64) + y.(uint64)
		case uintptr:
			return x.(uintptr) + y.(uintptr)
		case float32:
			return x.(float32) + y.(float32)
		case float64:
			return x.(float64) + y.(float64)
		case complex64:
			return x.(complex64) + y.(complex64)
		case complex128:
			return x.(complex128) + y.(complex128)
		case string:
			return x.(string) + y.(string)
		}

	case token.SUB:
		switch x.(type) {
		case int:
			return x.(int) - y.(int)
		case int8:
			return x.(int8) - y.(int8)
		case int16:
			return x.(int16) - y.(int16)
		case int32:
			return x.(int32) - y.(int32)
		case int64:
			return x.(int64) - y.(int64)
		case uint:
			return x.(uint) - y.(uint)
		case uint8:
			return x.(uint8) - y.(uint8)
		case uint16:
			return x.(uint16) - y.(uint16)
		case uint32:
			return x.(uint32) - y.(uint32)
		case uint64:
			return x.(uint64) - y.(uint64)
		case uintptr:
			return x.(uintptr) - y.(uintptr)
		case float32:
			return x.(float32) - y.(float32)
		case float64:
			return x.(float64) - y.(float64)
		case complex64:
			return x.(complex64) - y.(complex64)
		case complex128:
			return x.(complex128) - y.(complex128)
		}

	case token.MUL:
		switch x.(type) {
		case int:
			return x.(int) * y.(int)
		case int8:
			return x.(int8) * y.(int8)
		case int16:
			return x.(int16) * y.(int16)
		case int32:
			return x.(int32) * y.(int32)
		case int64:
			return x.(int64) * y.(int64)
		case uint:
			return x.(uint) * y.(uint)
		case uint8:
			return x.(uint8) * y.(uint8)
		case uint16:
			return x.(uint16) * y.(uint16)
		case uint32:
			return x.(uint32) * y.(uint32)
		case uint64:
			return x.(uint64) * y.(uint64)
		case uintptr:
			return x.(uintptr) * y.(uintptr)
		case float32:
			return x.(float32) * y.(float32)
		case float64:
			return x.(float64) * y.(float64)
		case complex64:
			return x.(complex64) * y.(complex64)
		case complex128:
			return x.(complex128) * y.(complex128)
		}

	case token.QUO:
		switch x.(type) {
		case int:
			return x.(int) / y.(int)
		case int8:
			return x.(int8) / y.(int8)
		case int16:
			return x.(int16) / y.(int16)
		case int32:
			return x.(int32) / y.(int32)
		case int64:
			return x.(int64) / y.(int64)
		case uint:
			return x.(uint) / y.(uint)
		case uint8:
			return x.(uint8) / y.(uint8)
		case uint16:
			return x.(uint16) / y.(uint16)
		case uint32:
			return x.(uint32) / y.(uint32)
		case uint64:
			return x.(uint64) / y.(uint64)
		case uintptr:
			return x.(uintptr) / y.(uintptr)
		case float32:
			return x.(float32) / y.(float32)
		case float64:
			return x.(float64) / y.(float64)
		case complex64:
			return x.(complex64) / y.(complex64)
		case complex128:
			return x.(complex128) / y.(complex128)
		}

	case token.REM:
		switch x.(type) {
		case int:
			return x.(int) % y.(int)
		case int8:
			return x.(int8) % y.(int8)
		case int16:
			return x.(int16) % y.(int16)
		case int32:
			return x.(int32) % y.(int32)
		case int64:
			return x.(int64) % y.(int64)
		case uint:
			return x.(uint) % y.(uint)
		case uint8:
			return x.(uint8) % y.(uint8)
		case uint16:
			return x.(uint16) % y.(uint16)
		case uint32:
			return x.(uint32) % y.(uint32)
		case uint64:
			return x.(uint64) % y.(uint64)
		case uintptr:
			return x.(uintptr) % y.(uintptr)
		}

	case token.AND:
		switch x.(type) {
		case int:
			return x.(int) & y.(int)
		case int8:
			return x.(int8) & y.(int8)
		case int16:
			return x.(int16) & y.(int16)
		case int32:
			return x.(int32) & y.(int32)
		case int64:
			return x.(int64) & y.(int64)
		case uint:
			return x.(uint) & y.(uint)
		case uint8:
			return x.(uint8) & y.(uint8)
		case uint16:
			return x.(uint16) & y.(uint16)
		case uint32:
			return x.(uint32) & y.(uint32)
		case uint64:
			return x.(uint64) & y.(uint64)
		case uintptr:
			return x.(uintptr) & y.(uintptr)
		}

	case token.OR:
		switch x.(type) {
		case int:
			return x.(int) | y.(int)
		case int8:
			return x.(int8) | y.(int8)
		case int16:
			return x.(int16) | y.(int16)
		case int32:
			return x.(int32) | y.(int32)
		case int64:
			return x.(int64) | y.(int64)
		case uint:
			return x.(uint) | y.(uint)
		case uint8:
			return x.(uint8) | y.(uint8)
		case uint16:
			return x.(uint16) | y.(uint16)
		case uint32:
			return x.(uint32) | y.(uint32)
		case uint64:
			return x.(uint64) | y.(uint64)
		case uintptr:
			return x.(uintptr) | y.(uintptr)
		}

	case token.XOR:
		switch x.(type) {
		case int:
			return x.(int) ^ y.(int)
		case int8:
			return x.(int8) ^ y.(int8)
		case int16:
			return x.(int16) ^ y.(int16)
		case int32:
			return x.(int32) ^ y.(int32)
		case int64:
			return x.(int64) ^ y.(int64)
		case uint:
			return x.(uint) ^ y.(uint)
		case uint8:
			return x.(uint8) ^ y.(uint8)
		case uint16:
			return x.(uint16) ^ y.(uint16)
		case uint32:
			return x.(uint32) ^ y.(uint32)
		case uint64:
			return x.(uint64) ^ y.(uint64)
		case uintptr:
			return x.(uintptr) ^ y.(uintptr)
		}

	case token.AND_NOT:
		switch x.(type) {
		case int:
			return x.(int) &^ y.(int)
		case int8:
			return x.(int8) &^ y.(int8)
		case int16:
			return x.(int16) &^ y.(int16)
		case int32:
			return x.(int32) &^ y.(int32)
		case int64:
			return x.(int64) &^ y.(int64)
		case uint:
			return x.(uint) &^ y.(uint)
		case uint8:
			return x.(uint8) &^ y.(uint8)
		case uint16:
			return x.(uint16) &^ y.(uint16)
		case uint32:
			return x.(uint32) &^ y.(uint32)
		case uint64:
			return x.(uint64) &^ y.(uint64)
		case uintptr:
			return x.(uintptr) &^ y.(uintptr)
		}

	case token.SHL:
		u, ok := asUnsigned(y)
		if !ok {
			panic("negative shift amount")
		}
		y := asUint64(u)
		switch x.(type) {
		case int:
			return x.(int) << y
		case int8:
			return x.(int8) << y
		case int16:
			return x.(int16) << y
		case int32:
			return x.(int32) << y
		case int64:
			return x.(int64) << y
		case uint:
			return x.(uint) << y
		case uint8:
			return x.(uint8) << y
		case uint16:
			return x.(uint16) << y
		case uint32:
			return x.(uint32) << y
		case uint64:
			return x.(uint64) << y
		case uintptr:
			return x.(uintptr) << y
		}

	case token.SHR:
		u, ok := asUnsigned(y)
		if !ok {
			panic("negative shift amount")
		}
		y := asUint64(u)
		switch x.(type) {
		case int:
			return x.(int) >> y
		case int8:
			return x.(int8) >> y
		case int16:
			return x.(int16) >> y
		case int32:
			return x.(int32) >> y
		case int64:
			return x.(int64) >> y
		case uint:
			return x.(uint) >> y
		case uint8:
			return x.(uint8) >> y
		case uint16:
			return x.(uint16) >> y
		case uint32:
			return x.(uint32) >> y
		case uint64:
			return x.(uint64) >> y
		case uintptr:
			return x.(uintptr) >> y
		}

	case token.LSS:
		switch x.(type) {
		case int:
			return x.(int) < y.(int)
		case int8:
			return x.(int8) < y.(int8)
		case int16:
			return x.(int16) < y.(int16)
		case int32:
			return x.(int32) < y.(int32)
		case int64:
			return x.(int64) < y.(int64)
		case uint:
			return x.(uint) < y.(uint)
		case uint8:
			return x.(uint8) < y.(uint8)
		case uint16:
			return x.(uint16) < y.(uint16)
		case uint32:
			return x.(uint32) < y.(uint32)
		case uint64:
			return x.(uint64) < y.(uint64)
		case uintptr:
			return x.(uintptr) < y.(uintptr)
		case float32:
			return x.(float32) < y.(float32)
		case float64:
			return x.(float64) < y.(float64)
		case string:
			return x.(string) < y.(string)
		}

	case token.LEQ:
		switch x.(type) {
		case int:
			return x.(int) <= y.(int)
		case int8:
			return x.(int8) <= y.(int8)
		case int16:
			return x.(int16) <= y.(int16)
		case int32:
			return x.(int32) <= y.(int32)
		case int64:
			return x.(int64) <= y.(int64)
		case uint:
			return x.(uint) <= y.(uint)
		case uint8:
			return x.(uint8) <= y.(uint8)
		case uint16:
			return x.(uint16) <= y.(uint16)
		case uint32:
			return x.(uint32) <= y.(uint32)
		case uint64:
			return x.(uint64) <= y.(uint64)
		case uintptr:
			return x.(uintptr) <= y.(uintptr)
		case float32:
			return x.(float32) <= y.(float32)
		case float64:
			return x.(float64) <= y.(float64)
		case string:
			return x.(string) <= y.(string)
		}

	case token.EQL:
		panic("eq handled by caller")

	case token.NEQ:
		panic("neq handled by caller")

	case token.GTR:
		switch x.(type) {
		case int:
			return x.(int) > y.(int)
		case int8:
			return x.(int8) > y.(int8)
		case int16:
			return x.(int16) > y.(int16)
		case int32:
			return x.(int32) > y.(int32)
		case int64:
			return x.(int64) > y.(int64)
		case uint:
			return x.(uint) > y.(uint)
		case uint8:
			return x.(uint8) > y.(uint8)
		case uint16:
			return x.(uint16) > y.(uint16)
		case uint32:
			return x.(uint32) > y.(uint32)
		case uint64:
			return x.(uint64) > y.(uint64)
		case uintptr:
			return x.(uintptr) > y.(uintptr)
		case float32:
			return x.(float32) > y.(float32)
		case float64:
			return x.(float64) > y.(float64)
		case string:
			return x.(string) > y.(string)
		}

	case token.GEQ:
		switch x.(type) {
		case int:
			return x.(int) >= y.(int)
		case int8:
			return x.(int8) >= y.(int8)
		case int16:
			return x.(int16) >= y.(int16)
		case int32:
			return x.(int32) >= y.(int32)
		case int64:
			return x.(int64) >= y.(int64)
		case uint:
			return x.(uint) >= y.(uint)
		case uint8:
			return x.(uint8) >= y.(uint8)
		case uint16:
			return x.(uint16) >= y.(uint16)
		case uint32:
			return x.(uint32) >= y.(uint32)
		case uint64:
			return x.(uint64) >= y.(uint64)
		case uintptr:
			return x.(uintptr) >= y.(uintptr)
		case float32:
			return x.(float32) >= y.(float32)
		case float64:
			return x.(float64) >= y.(float64)
		case string:
			return x.(string) >= y.(string)
		}
	}
	panic(fmt.Sprintf("invalid binary op: %T %s %T", x, op, y))
}

// eqnil returns the comparison x == y using the equivalence relation
// appropriate for type t.

// widen widens a basic typed value x to the widest type of its
// category, one of:
//
//	bool, int64, uint64, float64, complex128, string.
//
// This is inefficient but reduces the size of the cross-product of
// cases we have to consider.
func widen(x value) value {
	switch y := x.(type) {
	case bool, int64, uint64, float64, complex128, string, unsafe.Pointer:
		return x
	case int:
		return int64(y)
	case int8:
		return int64(y)
	case int16:
		return int64(y)
	case int32:
		return int64(y)
	case uint:
		return uint64(y)
	case uint8:
		return uint64(y)
	case uint16:
		return uint64(y)
	case uint32:
		return uint64(y)
	case uintptr:
		return uint64(y)
	case float32:
		return float64(y)
	case complex64:
		return complex128(y)
	}
	panic(fmt.Sprintf("cannot widen %T", x))
}

// conv converts the value x of type t_src to type t_dst and returns
// the result.
// Possible cases are described with the ssa.Convert operator.

// conv converts the value x of type t_src to type t_dst and returns
// the result.
// Possible cases are described with the ssa.Convert operator.
func convConcrete(t_dst, t_src types.Type, x value) value {
	ut_src := t_src.Underlying()
	ut_dst := t_dst.Underlying()

	// Destination type is not an "untyped" type.
	if b, ok := ut_dst.(*types.Basic); ok && b.Info()&types.IsUntyped != 0 {
		panic("oops: conversion to 'untyped' type: " + b.String())
	}

	// Nor is it an interface type.
	if _, ok := ut_dst.(*types.Interface); ok {
		if _, ok := ut_src.(*types.Interface); ok {
			panic("oops: Convert should be ChangeInterface")
		} else {
			panic("oops: Convert should be MakeInterface")
		}
	}

	// Remaining conversions:
	//    + untyped string/number/bool constant to a specific
	//      representation.
	//    + conversions between non-complex numeric types.
	//    + conversions between complex numeric types.
	//    + integer/[]byte/[]rune -> string.
	//    + string -> []byte/[]rune.
	//
	// All are treated the same: first we extract the value to the
	// widest representation (int64, uint64, float64, complex128,
	// or string), then we convert it to the desired type.

	switch ut_src := ut_src.(type) {
	case *types.Pointer:
		switch ut_dst := ut_dst.(type) {
		case *types.Basic:
			// *value to unsafe.Pointer?
			if ut_dst.Kind() == types.UnsafePointer {
				return unsafe.Pointer(x.(*value))
			}
		}

	case *types.Slice:
		// []byte or []rune -> string
		switch ut_src.Elem().Underlying().(*types.Basic).Kind() {
		case types.Byte:
			x := x.([]value)
			b := make([]byte, 0, len(x))
			for i := range x {
				b = append(b, x[i].(byte))
			}
			return string(b)

		case types.Rune:
			x := x.([]value)
			r := make([]rune, 0, len(x))
			for i := range x {
				r = append(r, x[i].(rune))
			}
			return string(r)
		}

	case *types.Basic:
		x = widen(x)

		// integer -> string?
		if ut_src.Info()&types.IsInteger != 0 {
			if ut_dst, ok := ut_dst.(*types.Basic); ok && ut_dst.Kind() == types.String {
				return fmt.Sprintf("%c", x)
			}
		}

		// string -> []rune, []byte or string?
		if s, ok := x.(string); ok {
			switch ut_dst := ut_dst.(type) {
			case *types.Slice:
				var res []value
				switch ut_dst.Elem().Underlying().(*types.Basic).Kind() {
				case types.Rune:
					for _, r := range []rune(s) {
						res = append(res, r)
					}
					return res
				case types.Byte:
					for _, b := range []byte(s) {
						res = append(res, b)
					}
					return res
				}
			case *types.Basic:
				if ut_dst.Kind() == types.String {
					return x.(string)
				}
			}
			break // fail: no other conversions for string
		}

		// unsafe.Pointer -> *value
		if ut_src.Kind() == types.UnsafePointer {
			// TODO(adonovan): this is wrong and cannot
			// really be fixed with the current design.
			//
			// return (*value)(x.(unsafe.Pointer))
			// creates a new pointer of a different
			// type but the underlying interface value
			// knows its "true" type and so cannot be
			// meaningfully used through the new pointer.
			//
			// To make this work, the interpreter needs to
			// simulate the memory layout of a real
			// compiled implementation.
			//
			// To at least preserve type-safety, we'll
			// just return the zero value of the
			// destination type.
			return zero(t_dst)
		}

		// Conversions between complex numeric types?
		if ut_src.Info()&types.IsComplex != 0 {
			switch ut_dst.(*types.Basic).Kind() {
			case types.Complex64:
				return complex64(x.(complex128))
			case types.Complex128:
				return x.(complex128)
			}
			break // fail: no other conversions for complex
		}

		// Conversions between non-complex numeric types?
		if ut_src.Info()&types.IsNumeric != 0 {
			kind := ut_dst.(*types.Basic).Kind()
			switch x := x.(type) {
			case int64: // signed integer -> numeric?
				switch kind {
				case types.Int:
					return int(x)
				case types.Int8:
					return int8(x)
				case types.Int16:
					return int16(x)
				case types.Int32:
					return int32(x)
				case types.Int64:
					return int64(x)
				case types.Uint:
					return uint(x)
				case types.Uint8:
					return uint8(x)
				case types.Uint16:
					return uint16(x)
				case types.Uint32:
					return uint32(x)
				case types.Uint64:
					return uint64(x)
				case types.Uintptr:
					return uintptr(x)
				case types.Float32:
					return float32(x)
				case types.Float64:
					return float64(x)
				}

			case uint64: // unsigned integer -> numeric?
				switch kind {
				case types.Int:
					return int(x)
				case types.Int8:
					return int8(x)
				case types.Int16:
					return int16(x)
				case types.Int32:
					return int32(x)
				case types.Int64:
					return int64(x)
				case types.Uint:
					return uint(x)
				case types.Uint8:
					return uint8(x)
				case types.Uint16:
					return uint16(x)
				case types.Uint32:
					return uint32(x)
				case types.Uint64:
					return uint64(x)
				case types.Uintptr:
					return uintptr(x)
				case types.Float32:
					return float32(x)
				case types.Float64:
					return float64(x)
				}

			case float64: // floating point -> numeric?
				switch kind {
				case types.Int:
					return int(x)
				case types.Int8:
					return int8(x)
				case types.Int16:
					return int16(x)
				case types.Int32:
					return int32(x)
				case types.Int64:
					return int64(x)
				case types.Uint:
					return uint(x)
				case types.Uint8:
					return uint8(x)
				case types.Uint16:
					return uint16(x)
				case types.Uint32:
					return uint32(x)
				case types.Uint64:
					return uint64(x)
				case types.Uintptr:
					return uintptr(x)
				case types.Float32:
					return float32(x)
				case types.Float64:
					return float64(x)
				}
			}
		}
	}

	panic(fmt.Sprintf("unsupported conversion: %s  -> %s, dynamic type %T", t_src, t_dst, x))
}

// sliceToArrayPointer converts the value x of type slice to type t_dst

func foldLeft(op func(value, value) value, args []value) value {
	x := args[0]
	for _, arg := range args[1:] {
		x = op(x, arg)
	}
	return x
}

func min(x, y value) value {
	switch x := x.(type) {
	case float32:
		return fmin(x, y.(float32))
	case float64:
		return fmin(x, y.(float64))
	}

	// return (y < x) ? y : x
	if binopConcrete(token.LSS, nil, y, x).(bool) {
		return y
	}
	return x
}

func max(x, y value) value {
	switch x := x.(type) {
	case float32:
		return fmax(x, y.(float32))
	case float64:
		return fmax(x, y.(float64))
	}

	// return (y > x) ? y : x
	if binopConcrete(token.GTR, nil, y, x).(bool) {
		return y
	}
	return x
}

// copied from $GOROOT/src/runtime/minmax.go

type floaty interface{ ~float32 | ~float64 }

func fmin[F floaty](x, y F) F {
	if y != y || y < x {
		return y
	}
	if x != x || x < y || x != 0 {
		return x
	}
	// x and y are both ±0
	// if either is -0, return -0; else return +0
	return forbits(x, y)
}

func fmax[F floaty](x, y F) F {
	if y != y || y > x {
		return y
	}
	if x != x || x > y || x != 0 {
		return x
	}
	// x and y are both ±0
	// if both are -0, return -0; else return +0
	return fandbits(x, y)
}

func forbits[F floaty](x, y F) F {
	switch unsafe.Sizeof(x) {
	case 4:
		*(*uint32)(unsafe.Pointer(&x)) |= *(*uint32)(unsafe.Pointer(&y))
	case 8:
		*(*uint64)(unsafe.Pointer(&x)) |= *(*uint64)(unsafe.Pointer(&y))
	}
	return x
}

func fandbits[F floaty](x, y F) F {
	switch unsafe.Sizeof(x) {
	case 4:
		*(*uint32)(unsafe.Pointer(&x)) &= *(*uint32)(unsafe.Pointer(&y))
	case 8:
		*(*uint64)(unsafe.Pointer(&x)) &= *(*uint64)(unsafe.Pointer(&y))
	}
	return x
}
