package main

// Epochs and write sets (DESIGN.md §3.3): after verifFreeze() every store,
// map update, in-place append, copy or delete that hits a cell which existed
// before the freeze (or is reachable from package-level state) is recorded.

import (
	"fmt"
	"reflect"
)

type writeRec struct {
	Site    string
	Where   string
	Kind    string // store, map, append, buf
	Changed bool
	Global  bool
	Stack   string
}

func (in *interp) noteWrite(addr *value, nv value) {
	if !in.frozenOn {
		return
	}
	_, fz := in.frozenCells[addr]
	_, gl := in.globalCells[addr]
	if !fz && !gl {
		return
	}
	in.writes = append(in.writes, writeRec{Site: in.site(), Where: in.where(), Kind: "store",
		Changed: !sameValue(*addr, nv), Global: gl, Stack: in.stack()})
}

func (in *interp) noteMapWrite(m *omap) {
	if !in.frozenOn {
		return
	}
	_, fz := in.frozenMaps[m]
	_, gl := in.globalMaps[m]
	if !fz && !gl {
		return
	}
	in.writes = append(in.writes, writeRec{Site: in.site(), Where: in.where(), Kind: "map", Changed: true, Global: gl, Stack: in.stack()})
}

func (in *interp) noteBufWrite(b *byteBuf) {
	if !in.frozenOn {
		return
	}
	if _, fz := in.frozenBufs[b]; !fz {
		return
	}
	in.writes = append(in.writes, writeRec{Site: in.site(), Where: in.where(), Kind: "buf", Changed: true, Stack: in.stack()})
}

// noteAppend: append(s, n more) writes s[len:len+n] in place when capacity allows.
func (in *interp) noteAppend(s []value, n int) {
	if !in.frozenOn || n == 0 {
		return
	}
	if len(s)+n > cap(s) {
		return
	}
	full := s[:cap(s)]
	for i := len(s); i < len(s)+n; i++ {
		addr := &full[i]
		_, fz := in.frozenCells[addr]
		_, gl := in.globalCells[addr]
		if fz || gl {
			in.writes = append(in.writes, writeRec{Site: in.site(), Where: in.where(), Kind: "append", Changed: true, Global: gl, Stack: in.stack()})
			return
		}
	}
}

func sameValue(a, b value) bool {
	defer func() { recover() }()
	switch x := a.(type) {
	case bool, int, int8, int16, int32, int64, uint, uint8, uint16, uint32, uint64, uintptr, float32, float64, string:
		return a == b
	case *value:
		y, ok := b.(*value)
		return ok && x == y
	case *omap:
		y, ok := b.(*omap)
		return ok && x == y
	case []value:
		y, ok := b.([]value)
		if !ok || len(x) != len(y) {
			return false
		}
		if len(x) == 0 {
			return (x == nil) == (y == nil)
		}
		return &x[0] == &y[0]
	case iface:
		y, ok := b.(iface)
		return ok && sameType(x.t, y.t) && (x.t == nil || sameValue(x.v, y.v))
	case structure:
		y, ok := b.(structure)
		if !ok || len(x) != len(y) {
			return false
		}
		for i := range x {
			if !sameValue(x[i], y[i]) {
				return false
			}
		}
		return true
	case symInt:
		y, ok := b.(symInt)
		return ok && x.t.String() == y.t.String()
	case symStr:
		y, ok := b.(symStr)
		return ok && x.t.String() == y.t.String()
	case symBool:
		y, ok := b.(symBool)
		return ok && x.t.String() == y.t.String()
	case native:
		y, ok := b.(native)
		return ok && nativeEqual(x, y)
	}
	return false
}

type cellWalker struct {
	cells map[*value]struct{}
	maps  map[*omap]struct{}
	bufs  map[*byteBuf]struct{}
	skipC map[*value]struct{}
	skipM map[*omap]struct{}
	seenS map[uintptr]struct{}
}

func newCellWalker() *cellWalker {
	return &cellWalker{cells: map[*value]struct{}{}, maps: map[*omap]struct{}{}, bufs: map[*byteBuf]struct{}{}, seenS: map[uintptr]struct{}{}}
}

// walk registers every cell reachable from v. addr is the cell holding v (may be nil).
func (w *cellWalker) walk(v value) {
	switch x := v.(type) {
	case *value:
		if x == nil {
			return
		}
		if _, ok := w.cells[x]; ok {
			return
		}
		if w.skipC != nil {
			if _, ok := w.skipC[x]; ok {
				return
			}
		}
		w.cells[x] = struct{}{}
		w.walkAgg(x)
	case []value:
		if x == nil || cap(x) == 0 {
			return
		}
		full := x[:cap(x)]
		key := reflect.ValueOf(full).Pointer() + uintptr(cap(x))<<48
		if _, ok := w.seenS[key]; ok {
			return
		}
		w.seenS[key] = struct{}{}
		for i := range full {
			p := &full[i]
			if _, ok := w.cells[p]; !ok {
				w.cells[p] = struct{}{}
				w.walkAgg(p)
			}
		}
	case structure:
		for i := range x {
			w.cells[&x[i]] = struct{}{}
			w.walk(x[i])
		}
	case array:
		for i := range x {
			w.cells[&x[i]] = struct{}{}
			w.walk(x[i])
		}
	case iface:
		w.walk(x.v)
	case *omap:
		if x == nil {
			return
		}
		if _, ok := w.maps[x]; ok {
			return
		}
		if w.skipM != nil {
			if _, ok := w.skipM[x]; ok {
				return
			}
		}
		w.maps[x] = struct{}{}
		for _, e := range x.ents {
			if !e.deleted {
				w.walk(e.k)
				w.walk(e.v)
			}
		}
	case *symBytes:
		if x != nil {
			w.bufs[x.buf] = struct{}{}
		}
	case *closure:
		if x != nil {
			for _, e := range x.Env {
				w.walk(e)
			}
		}
	case tuple:
		for _, e := range x {
			w.walk(e)
		}
	}
}

// walkNoCells walks what v references without registering the cells v itself
// is made of (frame locals are not caller-supplied state).
func (w *cellWalker) walkNoCells(v value) {
	switch x := v.(type) {
	case structure:
		for i := range x {
			w.walkNoCells(x[i])
		}
	case array:
		for i := range x {
			w.walkNoCells(x[i])
		}
	default:
		w.walk(v)
	}
}

// walkAgg walks the content of cell p; struct/array fields living inside the
// cell are cells themselves.
func (w *cellWalker) walkAgg(p *value) {
	switch x := (*p).(type) {
	case structure:
		for i := range x {
			q := &x[i]
			if _, ok := w.cells[q]; !ok {
				w.cells[q] = struct{}{}
				w.walkAgg(q)
			}
		}
	case array:
		for i := range x {
			q := &x[i]
			if _, ok := w.cells[q]; !ok {
				w.cells[q] = struct{}{}
				w.walkAgg(q)
			}
		}
	default:
		w.walk(x)
	}
}

// freeze marks everything reachable from the live frames as pre-existing.
func (in *interp) freeze() {
	w := newCellWalker()
	w.skipC = in.globalCells
	w.skipM = in.globalMaps
	locals := map[*value]bool{}
	for fr := in.top; fr != nil; fr = fr.caller {
		for i := range fr.locals {
			locals[&fr.locals[i]] = true
		}
	}
	for fr := in.top; fr != nil; fr = fr.caller {
		for _, v := range fr.env {
			if p, ok := v.(*value); ok && locals[p] {
				continue
			}
			w.walk(v)
		}
		for i := range fr.locals {
			w.walkNoCells(fr.locals[i])
		}
	}
	in.frozenCells, in.frozenMaps, in.frozenBufs = w.cells, w.maps, w.bufs
	in.frozenOn = true
	in.writes = nil
}

func (in *interp) snapshotGlobals() {
	w := newCellWalker()
	for _, cell := range in.globals {
		w.cells[cell] = struct{}{}
		w.walkAgg(cell)
	}
	in.globalCells, in.globalMaps = w.cells, w.maps
}

func (r writeRec) String() string {
	return fmt.Sprintf("%s write at %s (%s) changed=%v global=%v", r.Kind, r.Where, r.Site, r.Changed, r.Global)
}
