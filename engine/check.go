package main

// gosym check <id> --tier quick|thorough: run every harness that serves the
// property, replay candidate violations natively, write evidence, print
// VIOLATION / KNOWN-FINDING lines, set the exit code.

import (
	"bytes"
	"encoding/json"
	"flag"
	"fmt"
	"os"
	"os/exec"
	"path/filepath"
	"regexp"
	"runtime"
	"sort"
	"strconv"
	"strings"
	"sync"
	"sync/atomic"
	"time"
	"unicode/utf8"
)

var verifRoot = "/verif"

type replayFile struct {
	Property string                 `json:"property"`
	Harness  string                 `json:"harness"` // pkgdir.Func
	Pkg      string                 `json:"pkg"`
	Func     string                 `json:"func"`
	Kind     string                 `json:"kind"`
	Tag      string                 `json:"tag"`
	Where    string                 `json:"where"`
	Msg      string                 `json:"msg,omitempty"`
	Model    map[string]interface{} `json:"model"`
	Tier     string                 `json:"tier"`
	Stack    string                 `json:"stack,omitempty"`
}

func encodeModel(m model) map[string]interface{} {
	out := map[string]interface{}{}
	for k, v := range m {
		switch x := v.(type) {
		case string:
			ascii := utf8.ValidString(x)
			for i := 0; i < len(x) && ascii; i++ {
				if x[i] >= 0x80 {
					ascii = false
				}
			}
			if ascii {
				out[k] = x
			} else {
				bs := make([]int, len(x))
				for i := 0; i < len(x); i++ {
					bs[i] = int(x[i])
				}
				out[k] = bs
			}
		default:
			out[k] = v
		}
	}
	return out
}

func splitHarness(name string) (pkgPath, fn string) {
	i := strings.IndexByte(name, '.')
	if j := strings.Index(name, ".Verif"); j >= 0 {
		i = j
	}
	dir := name[:i]
	if dir == "" {
		return repoMod, name[i+1:]
	}
	return repoMod + "/" + dir, name[i+1:]
}

// replayModel runs harness natively under the given model and reports how it ended.
func replayModel(pkgPath, fn string, mdl map[string]interface{}, tier string, race bool) (outcome string, output string) {
	tmp, err := os.MkdirTemp("", "gosym-replay-")
	if err != nil {
		return "error", err.Error()
	}
	defer os.RemoveAll(tmp)
	ov, _, err := harnessOverlay()
	if err != nil {
		return "error", err.Error()
	}
	dir := strings.TrimPrefix(strings.TrimPrefix(pkgPath, repoMod), "/")
	pkgName := ""
	for k, v := range ov {
		if filepath.Dir(k) == filepath.Join(repoDir, dir) {
			pkgName = packageClause(v)
			break
		}
	}
	callExpr := fn + "()"
	if k := strings.IndexByte(fn, '#'); k >= 0 {
		arg := fn[k+1:]
		if c := strings.IndexByte(arg, ':'); c >= 0 {
			arg = arg[:c]
		}
		callExpr = fn[:k] + "(" + arg + ")"
	}
	testSrc := fmt.Sprintf("package %s\n\nimport \"testing\"\n\nfunc TestVerifReplay(t *testing.T) {\n\t%s\n\tt.Log(\"VERIF-REACHED\", verifReached)\n}\n", pkgName, callExpr)
	ov[filepath.Join(repoDir, dir, "zz_verif_replay_test.go")] = []byte(testSrc)
	repl := map[string]string{}
	n := 0
	for k, v := range ov {
		p := filepath.Join(tmp, fmt.Sprintf("f%d.go", n))
		n++
		if err := os.WriteFile(p, v, 0o644); err != nil {
			return "error", err.Error()
		}
		repl[k] = p
	}
	ovj, _ := json.Marshal(map[string]interface{}{"Replace": repl})
	ovPath := filepath.Join(tmp, "overlay.json")
	os.WriteFile(ovPath, ovj, 0o644)
	mj, _ := json.Marshal(map[string]interface{}{"model": mdl})
	mPath := filepath.Join(tmp, "model.json")
	os.WriteFile(mPath, mj, 0o644)
	args := []string{"test", "-count=1", "-vet=off", "-overlay", ovPath, "-run", "^TestVerifReplay$", "-v", "-timeout", replayDeadline}
	if race {
		args = append(args, "-race")
	}
	args = append(args, pkgPath)
	cmd := exec.Command("go", args...)
	cmd.Dir = moduleDir
	cmd.Env = append(os.Environ(), "GOFLAGS=-mod=mod", "GOPROXY=off", "GOSUMDB=off", "GOTOOLCHAIN=local",
		"VERIF_MODEL="+mPath, "VERIF_TIER="+tier)
	if race {
		cmd.Env = append(cmd.Env, "VERIF_RACE=1", "CGO_ENABLED=1")
	}
	var buf bytes.Buffer
	cmd.Stdout = &buf
	cmd.Stderr = &buf
	done := make(chan error, 1)
	go func() { done <- cmd.Run() }()
	select {
	case <-done:
	case <-time.After(8 * time.Minute):
		cmd.Process.Kill()
		return "timeout", buf.String()
	}
	out := buf.String()
	switch {
	case strings.Contains(out, "VERIF-ASSUME-VIOLATED"):
		return "assume-violated", out
	case strings.Contains(out, "VERIF-ASSERT-FAILED"):
		// nested helpers re-panic with a more specific message: the outermost (last) one counts
		re := regexp.MustCompile(`VERIF-ASSERT-FAILED: (.*?)(?: \[recovered\])?\n`)
		ms := re.FindAllStringSubmatch(strings.SplitN(out, "goroutine ", 2)[0], -1)
		if len(ms) == 0 {
			// (under -race the panic message may follow the first goroutine header)
			ms = re.FindAllStringSubmatch(out, 1)
		}
		if len(ms) == 0 {
			return "assert:?", out
		}
		return "assert:" + strings.TrimSpace(ms[len(ms)-1][1]), out
	case strings.Contains(out, "WARNING: DATA RACE"):
		return "race", out
	case strings.Contains(out, "panic: test timed out after "+replayDeadline):
		return "no-return", out
	case strings.Contains(out, "panic:"):
		return "panic", out
	case strings.Contains(out, "--- PASS"):
		return "pass", out
	case strings.Contains(out, "[build failed]") || strings.Contains(out, "[setup failed]"):
		return "build-failed", out
	}
	return "other", out
}

func replayFailure(w *world, f *failure) (bool, string) {
	pkgPath, fn := splitHarness(f.Harness)
	race := f.Kind == "write" && strings.HasPrefix(f.Tag, "C05")
	outcome, out := replayModel(pkgPath, fn, encodeModel(f.Model), currentTier, race)
	if race && outcome != "race" {
		// The race detector keeps a bounded access history per word and may miss a
		// one-off write. A natively observed modification of state that concurrent
		// queries read is an unsynchronised write/read pair, i.e. a data race by the
		// Go memory model: confirm it through the snapshot comparison instead.
		outcome, out = replayModel(pkgPath, fn, encodeModel(f.Model), currentTier, false)
	}
	return outcomeConfirms(f.Kind, f.Tag, outcome), outcome + "\n" + tailLines(out, 25)
}

// repoIsRecordedTree: the checkout under check is clean and its tree is the one recorded in
// /verif/REPO_TREE (written by tools_manifest.py when the harnesses were last brought in line).
func repoIsRecordedTree() bool {
	rec, err := os.ReadFile(filepath.Join(verifRoot, "REPO_TREE"))
	if err != nil {
		return false
	}
	out, err := exec.Command("git", "-C", repoDir, "status", "--porcelain", "--untracked-files=no").Output()
	if err != nil || len(strings.TrimSpace(string(out))) > 0 {
		return false
	}
	tree, err := exec.Command("git", "-C", repoDir, "rev-parse", "HEAD^{tree}").Output()
	if err != nil {
		return false
	}
	return strings.TrimSpace(string(tree)) == strings.TrimSpace(string(rec))
}

// replayDeadline: how long a native replay may run inside the test binary (a replay of a path
// that ended takes well under a second; "no-return" is reported for one that passes this deadline).
const replayDeadline = "2m0s"

func outcomeConfirms(kind, tag, outcome string) bool {
	switch kind {
	case "nonterm":
		return outcome == "no-return"
	case "assert":
		if outcome == "assert:"+tag {
			return true
		}
		// independence of a Copy() result: the assertion names the first shared cell it meets, and
		// the native walk may meet another cell of the same copy first; the same assertion failed
		if i := strings.Index(tag, "-shares"); i > 0 && strings.HasPrefix(outcome, "assert:"+tag[:i+len("-shares")]) {
			return true
		}
		return false
	case "write":
		if outcome == "race" {
			return true
		}
		// "C04:hover-writes:store" / "C05:hover-writes:store" -> "hover-writes"
		parts := strings.Split(tag, ":")
		return len(parts) >= 2 && strings.HasPrefix(outcome, "assert:C0") && strings.Contains(outcome, ":"+parts[1])
	default: // panic, bounds, nil-deref, ...
		return outcome == "panic"
	}
}

func tailLines(s string, n int) string {
	ls := strings.Split(strings.TrimRight(s, "\n"), "\n")
	if len(ls) > n {
		ls = ls[len(ls)-n:]
	}
	return strings.Join(ls, "\n")
}

var currentTier = "quick"

// ---------------------------------------------------------------------------

type knownFinding struct {
	Property string
	Match    string // substring matched against "<harness> <kind> <tag> <where>"
	Text     string
}

func loadKnownFindings() []knownFinding {
	b, err := os.ReadFile(filepath.Join(verifRoot, "KNOWN_FINDINGS.txt"))
	if err != nil {
		return nil
	}
	var out []knownFinding
	for _, line := range strings.Split(string(b), "\n") {
		line = strings.TrimSpace(line)
		if !strings.HasPrefix(line, "known:") {
			continue
		}
		// known: property=C03 match=<...> -- text
		rest := strings.TrimSpace(strings.TrimPrefix(line, "known:"))
		text := ""
		if i := strings.Index(rest, " -- "); i >= 0 {
			text = rest[i+4:]
			rest = rest[:i]
		}
		kf := knownFinding{Text: text}
		for _, f := range strings.Fields(rest) {
			if strings.HasPrefix(f, "property=") {
				kf.Property = strings.TrimPrefix(f, "property=")
			}
			if strings.HasPrefix(f, "match=") {
				kf.Match = strings.TrimPrefix(f, "match=")
			}
		}
		if kf.Property != "" && kf.Match != "" {
			out = append(out, kf)
		}
	}
	return out
}

func failureIdent(f *failure) string {
	return strings.ReplaceAll(f.Harness+"|"+f.Kind+"|"+f.Tag+"|"+f.Where, " ", "_")
}

// propertyOfFailure attributes a candidate to properties.
// alsoIDs: development aid (VERIF_ALSO=C02,C04): one exploration is judged for several properties
// at once - the union of their harnesses is run and a failure owned by any of them is reported.
// The registered commands never set it.
func alsoIDs() []string {
	if v := os.Getenv("VERIF_ALSO"); v != "" {
		return strings.Split(v, ",")
	}
	return nil
}

func idMatches(id, want string) bool {
	if id == want {
		return true
	}
	for _, a := range alsoIDs() {
		if id == a {
			return true
		}
	}
	return false
}

func failureServes(f *failure, id string) bool {
	if failureServes1(f, id) {
		return true
	}
	for _, a := range alsoIDs() {
		if failureServes1(f, a) {
			return true
		}
	}
	return false
}

func harnessServes(name, id string) bool {
	if harnessServes1(name, id) {
		return true
	}
	for _, a := range alsoIDs() {
		if harnessServes1(name, a) {
			return true
		}
	}
	return false
}

func failureServes1(f *failure, id string) bool {
	switch f.Kind {
	case "assert", "write":
		head := f.Tag
		if i := strings.IndexByte(head, ':'); i >= 0 {
			head = head[:i]
		}
		for _, p := range strings.Split(head, "/") {
			if p == id {
				return true
			}
		}
		return false
	default:
		return id == "C01"
	}
}

func harnessServes1(name, id string) bool {
	// VerifH_C01C02_Foo or VerifH_C03_Foo
	i := strings.Index(name, "VerifH_")
	if i < 0 {
		i = strings.Index(name, "VerifP_")
	}
	if i < 0 {
		return false
	}
	rest := name[i+len("VerifH_"):]
	j := strings.IndexByte(rest, '_')
	if j < 0 {
		return false
	}
	ids := rest[:j]
	for k := 0; k+3 <= len(ids); k += 3 {
		if ids[k:k+3] == id {
			return true
		}
	}
	return false
}

type evidence struct {
	PropertyID  string                 `json:"property_id"`
	Tier        string                 `json:"tier"`
	Seed        int                    `json:"seed"`
	Level       string                 `json:"level"`
	Coverage    map[string]interface{} `json:"coverage"`
	Assumptions []string               `json:"assumptions"`
	WallS       float64                `json:"wall_s"`
	Violations  int                    `json:"violations"`
}

func cmdCheck(args []string) {
	if len(args) < 1 {
		fmt.Fprintln(os.Stderr, "usage: gosym check <id> [--tier quick|thorough]")
		os.Exit(2)
	}
	id := args[0]
	fs := flag.NewFlagSet("check", flag.ExitOnError)
	tier := fs.String("tier", "", "quick|thorough")
	workers := fs.Int("j", runtime.NumCPU(), "workers")
	solverName := fs.String("solver", "", "z3|z3-new|cvc5")
	fs.Parse(args[1:])
	if *tier == "" {
		*tier = os.Getenv("VERIF_TIER")
	}
	if *tier != "thorough" {
		*tier = "quick"
	}
	currentTier = *tier
	seed, _ := strconv.Atoi(os.Getenv("VERIF_SEED"))
	if *solverName == "" {
		*solverName = "cvc5"
	}
	t0 := time.Now()
	fail := func(err error) {
		fmt.Fprintln(os.Stderr, "gosym: machinery failure:", err)
		os.Exit(2)
	}
	w, err := loadWorld(nil)
	if err != nil {
		fail(err)
	}
	var droppedList []string
	for f, e := range droppedHarnessFiles {
		droppedList = append(droppedList, filepath.Base(f)+": "+e)
	}
	sort.Strings(droppedList)
	for _, s := range droppedList {
		fmt.Printf("NOTE harness file left out (does not compile against this tree): %s\n", s)
	}
	if len(droppedList) > 0 && repoIsRecordedTree() {
		// on the tree the harnesses were written for, a harness that does not compile is a defect
		// of the machinery, not something to step around
		fail(fmt.Errorf("harness files do not compile against the recorded tree (REPO_TREE): %s", strings.Join(droppedList, "; ")))
	}
	b := bounds{MaxPaths: 4000, MaxSteps: 30_000_000, TimeoutMs: 10000, Workers: *workers, MaxSeconds: 240}
	if *tier == "thorough" {
		// every verdict of the variable-bounds shortcut (interval.go) is compared with the solver's
		checkIntervals = true
		b = bounds{MaxPaths: 100000, MaxSteps: 100_000_000, TimeoutMs: 60000, Workers: *workers, MaxSeconds: 3000}
	}
	ex, err := newExplorer(w, b, *solverName)
	if err != nil {
		fail(err)
	}
	defer ex.close()

	var results []*harnessResult
	var hnames []string
	var selected []harness
	for _, h0 := range w.allHarnesses() {
		if !harnessServes(h0.name, id) {
			continue
		}
		xs, err := ex.expand(h0)
		if err != nil {
			fail(err)
		}
		for _, h := range xs {
			hnames = append(hnames, h.name)
			selected = append(selected, h)
		}
	}
	results = ex.runMany(selected, nil)
	if len(results) == 0 {
		fail(fmt.Errorf("no harness serves %s", id))
	}

	if n := atomic.LoadInt64(&intervalMismatches); n > 0 {
		fail(fmt.Errorf("the variable-bounds shortcut disagreed with the solver on %d questions (engine defect, nothing is reported)", n))
	}
	// thorough tier: a sample of the harnesses is decided again with a second solver (z3 5.x); the
	// path statistics must agree. A disagreement means the encoding relies on something one of the
	// solvers gets wrong: machinery failure, nothing is reported.
	cross := map[string]interface{}{"ran": false}
	if *tier == "thorough" && *solverName != "z3-new" {
		if _, lerr := exec.LookPath("z3-new"); lerr == nil {
			var sample []harness
			byName := map[string]*harnessResult{}
			for _, r := range results {
				byName[r.Name] = r
			}
			for _, h := range selected {
				r := byName[h.name]
				if r == nil || r.BudgetHit || r.Seconds > 20 || r.Solver.Seconds > 1.0 || r.Solver.Queries == 0 || r.Solver.Unknown > 0 || len(r.Unsupported) > 0 {
					continue
				}
				if len(sample) < 24 {
					sample = append(sample, h)
				}
			}
			if len(sample) > 0 {
				b2 := b
				b2.MaxSeconds = 120
				ex2, err2 := newExplorer(w, b2, "z3-new")
				if err2 == nil {
					res2 := ex2.runMany(sample, nil)
					ex2.close()
					agree, skipped := 0, 0
					var diffs []string
					for _, r2 := range res2 {
						r1 := byName[r2.Name]
						if r1 == nil || r2.BudgetHit || r2.Solver.Unknown > 0 || r2.Solver.Errors > 0 {
							skipped++
							continue
						}
						if r1.Paths != r2.Paths || r1.Candidates != r2.Candidates || r1.Undischarged != r2.Undischarged {
							diffs = append(diffs, fmt.Sprintf("%s: cvc5 paths=%d cand=%d undis=%d, z3 paths=%d cand=%d undis=%d", r2.Name, r1.Paths, r1.Candidates, r1.Undischarged, r2.Paths, r2.Candidates, r2.Undischarged))
						} else {
							agree++
						}
					}
					cross = map[string]interface{}{"ran": true, "second_solver": "z3-new", "harnesses": len(sample), "agree": agree, "inconclusive": skipped, "disagree": diffs}
					if len(diffs) > 0 {
						fail(fmt.Errorf("solvers disagree: %s", strings.Join(diffs, "; ")))
					}
				}
			}
		}
	}

	// validation of the stretch assumptions (A-PARSE, A-LEX, A-BOUNDARY) on this run's corpus
	stRounds := 3
	if *tier == "thorough" {
		stRounds = 40
	}
	stSeeds, stChecked, stMism := runSelftest(stRounds, true)
	if stMism > 0 {
		fail(fmt.Errorf("selftest: the stretch map disagrees with the real parser on %d positions (encoding is wrong, nothing is reported)", stMism))
	}
	known := loadKnownFindings()
	os.MkdirAll(filepath.Join(verifRoot, "out", "replay"), 0o755)
	var violations, confirmedKnown, unconfirmed []string
	var samples []interface{}
	replays := 0
	totals := map[string]int{}
	var allUndis, allUnsup, allNotes = map[string]int{}, map[string]int{}, map[string]int{}
	funcs := map[string]int{}
	var sv solverStats
	var hsum []interface{}
	var allFails []*failure
	vacuous := []string{}
	var budgetHits []string
	var witnessJobs []*harnessResult
	for _, r := range results {
		totals["paths"] += r.Paths
		totals["decisions"] += r.Decisions
		totals["obligations"] += r.Obligations
		totals["discharged"] += r.Discharged
		totals["undischarged"] += r.Undischarged
		totals["candidates"] += r.Candidates
		for k, n := range r.Undis {
			allUndis[r.Name+": "+k] += n
		}
		for k, n := range r.Unsupported {
			allUnsup[r.Name+": "+k] += n
		}
		for k, n := range r.EngineErrors {
			allUnsup[r.Name+": ENGINE "+k] += n
		}
		for k, n := range r.Notes {
			allNotes[k] += n
		}
		for k, n := range r.Funcs {
			funcs[k] += n
		}
		sv.Queries += r.Solver.Queries
		sv.Sat += r.Solver.Sat
		sv.Unsat += r.Solver.Unsat
		sv.Unknown += r.Solver.Unknown
		sv.Errors += r.Solver.Errors
		sv.Seconds += r.Solver.Seconds
		if r.BudgetHit {
			budgetHits = append(budgetHits, r.Name)
		}
		hsum = append(hsum, map[string]interface{}{"harness": r.Name, "paths": r.Paths, "path_end_status": r.Status, "decisions": r.Decisions, "obligations": r.Obligations, "discharged": r.Discharged, "solver_queries": r.Solver.Queries, "budget_hit": r.BudgetHit})
		// vacuity guard: every harness must reach its end on some path, and the witness must replay natively
		if _, ok := r.Witness["end"]; !ok {
			// a harness whose every path ends in a candidate violation is not vacuous: it is failing
			if len(r.Failures) == 0 {
				vacuous = append(vacuous, r.Name)
			}
		} else if *tier == "thorough" || len(results) <= 40 {
			witnessJobs = append(witnessJobs, r)
		}
		for _, f := range r.Failures {
			if failureServes(f, id) {
				allFails = append(allFails, f)
			}
		}
	}
	// witness replays (vacuity guard, natively): at most 120, spread evenly, eight at a time
	if n := len(witnessJobs); n > 120 {
		var pick []*harnessResult
		for i := 0; i < 120; i++ {
			pick = append(pick, witnessJobs[i*n/120])
		}
		witnessJobs = pick
	}
	{
		type wres struct {
			r            *harnessResult
			outcome, out string
		}
		wr := make([]wres, len(witnessJobs))
		wsem := make(chan struct{}, 8)
		var wwg sync.WaitGroup
		for i, r := range witnessJobs {
			wwg.Add(1)
			wsem <- struct{}{}
			go func(i int, r *harnessResult) {
				defer wwg.Done()
				defer func() { <-wsem }()
				pkgPath, fn := splitHarness(r.Name)
				o, out := replayModel(pkgPath, fn, encodeModel(r.Witness["end"]), *tier, false)
				wr[i] = wres{r, o, out}
			}(i, r)
		}
		wwg.Wait()
		for _, x := range wr {
			replays++
			if x.outcome == "pass" && strings.Contains(x.out, "VERIF-REACHED") && strings.Contains(x.out, "end") {
				totals["witness_replays_ok"]++
			} else if x.outcome == "build-failed" || x.outcome == "error" {
				fail(fmt.Errorf("witness replay of %s could not be built:\n%s", x.r.Name, tailLines(x.out, 30)))
			} else {
				// the witness path may legitimately hit a (known) failure natively; record
				totals["witness_replays_other"]++
				allNotes["witness-replay-"+x.outcome+":"+x.r.Name]++
			}
		}
	}
	// Replays: candidates that match a listed known finding are replayed (at most three
	// per identity; each listed finding is printed only if it still reproduces); the others are
	// grouped by (kind, tag, site) and at most three of a group are replayed — one
	// confirmed member makes the group a violation. Replays run eight at a time.
	type job struct {
		f       *failure
		known   *knownFinding
		group   string
		done    bool
		ok      bool
		out     string
		skipped bool
	}
	var jobs []*job
	perGroup := map[string]int{}
	for _, f := range allFails {
		j := &job{f: f, group: f.Kind + "|" + f.Tag + "|" + f.Where}
		ident := failureIdent(f)
		for i := range known {
			if idMatches(known[i].Property, id) && strings.Contains(ident, known[i].Match) {
				j.known = &known[i]
				break
			}
		}
		if j.known == nil {
			perGroup[j.group]++
			limit := 3
			if f.Kind == "nonterm" {
				// each replay runs to the deadline
				limit = 1
			}
			if perGroup[j.group] > limit {
				j.skipped = true
			}
		} else {
			// candidates with the same identity (harness, kind, tag, site) as a listed finding:
			// three replays tell whether it still reproduces
			k := "known|" + ident
			perGroup[k]++
			if perGroup[k] > 3 {
				j.skipped = true
			}
		}
		jobs = append(jobs, j)
	}
	sem := make(chan struct{}, 8)
	var rwg sync.WaitGroup
	for _, j := range jobs {
		if j.skipped {
			continue
		}
		rwg.Add(1)
		sem <- struct{}{}
		go func(j *job) {
			defer rwg.Done()
			defer func() { <-sem }()
			j.ok, j.out = replayFailure(w, j.f)
			j.done = true
		}(j)
	}
	rwg.Wait()
	groupViolated := map[string]bool{}
	for _, j := range jobs {
		f := j.f
		ident := failureIdent(f)
		if j.skipped {
			totals["same_site_candidates_not_replayed"]++
			continue
		}
		replays++
		if len(samples) < 12 {
			samples = append(samples, map[string]interface{}{"harness": f.Harness, "kind": f.Kind, "tag": f.Tag, "where": f.Where, "model": encodeModel(f.Model), "native_replay_confirmed": j.ok})
		}
		if !j.ok {
			unconfirmed = append(unconfirmed, ident+" => "+strings.SplitN(j.out, "\n", 2)[0])
			continue
		}
		if j.known != nil {
			confirmedKnown = append(confirmedKnown, j.known.Match+" "+j.known.Text)
			continue
		}
		if groupViolated[j.group] {
			continue
		}
		groupViolated[j.group] = true
		pkgPath, fn := splitHarness(f.Harness)
		rp := filepath.Join(verifRoot, "out", "replay", fmt.Sprintf("%s-%d.json", id, len(violations)))
		writeJSON(rp, replayFile{Property: id, Harness: f.Harness, Pkg: pkgPath, Func: fn, Kind: f.Kind, Tag: f.Tag, Where: f.Where,
			Msg: f.Msg, Model: encodeModel(f.Model), Tier: *tier, Stack: f.Stack})
		violations = append(violations, rp)
		fmt.Printf("VIOLATION property=%s replay=%s\n", id, rp)
		fmt.Printf("  %s %s at %s (%s) %s\n", f.Kind, f.Tag, f.Where, f.Harness, f.Msg)
	}
	seenK := map[string]bool{}
	for _, k := range confirmedKnown {
		if !seenK[k] {
			seenK[k] = true
			fmt.Printf("KNOWN-FINDING: property=%s %s\n", id, k)
		}
	}
	if len(vacuous) > 0 {
		fail(fmt.Errorf("harnesses never reached their end (vacuous): %v", vacuous))
	}
	// a few discharged obligations as samples
	for _, r := range results {
		if len(samples) >= 16 {
			break
		}
		samples = append(samples, map[string]interface{}{"harness": r.Name, "paths": r.Paths, "obligations": r.Obligations, "discharged": r.Discharged,
			"witness_model": encodeModel(r.Witness["end"])})
	}
	type fc struct {
		Name string `json:"fn"`
		N    int    `json:"calls"`
	}
	var fl []fc
	for k, n := range funcs {
		if strings.Contains(k, "hashicorp/hcl-lang") && !strings.Contains(k, "Verif") && !strings.Contains(k, "verif") {
			fl = append(fl, fc{k, n})
		}
	}
	sort.Slice(fl, func(i, j int) bool { return fl[i].Name < fl[j].Name })
	level := "model_checking"
	if id == "C05" {
		level = "other"
	}
	cov := map[string]interface{}{
		"states":                        totals["paths"],
		"transitions":                   totals["decisions"],
		"traces_validated_against_impl": totals["witness_replays_ok"] + len(violations) + len(seenK),
		"samples":                       samples,
		"evaluations":                   totals["paths"],
		"distinct_nontrivial":           totals["paths"],
		"rule":                          "one evaluation = one explored symbolic path (distinct decision prefix) of a harness; each stands for all values of the symbolic variables satisfying its path condition",
		"obligations":                   totals["obligations"],
		"discharged":                    totals["discharged"],
		"undischarged":                  totals["undischarged"],
		"undischarged_detail":           allUndis,
		"unsupported_paths":             allUnsup,
		"candidates":                    totals["candidates"],
		"unconfirmed":                   unconfirmed,
		"known_findings":                keys(seenK),
		"harnesses":                     hsum,
		"functions_encoded":             fl,
		"functions_encoded_count":       len(fl),
		"bounds":                        b,
		"solver":                        map[string]interface{}{"name": *solverName, "stats": sv},
		"notes":                         allNotes,
		"harness_files_left_out":        droppedList,
		"path_budget_hit_in":            budgetHits,
		"cross_solver_recheck":          cross,
		"bounds_shortcut_crosschecked":  atomic.LoadInt64(&intervalChecked),
		"native_replays":                replays,
		"explanation":                   "bounded symbolic execution of the real SSA of /repo (rebuilt this run) with an SMT solver deciding every branch and obligation; see DESIGN.md",
		"assumption_validation":         map[string]interface{}{"what": "A-PARSE/A-LEX/A-BOUNDARY: concrete layouts (VERIF_SEED) parsed by the real parser and compared with the stretch map", "seeds": stSeeds, "layouts_per_seed": stRounds, "positions_compared": stChecked, "mismatches": stMism},
		"load_seconds":                  w.loadSecs,
		"ssa_build_seconds":             w.buildSecs,
	}
	ev := evidence{PropertyID: id, Tier: *tier, Seed: seed, Level: level, Coverage: cov,
		Assumptions: assumptionsFor(id, allNotes), WallS: time.Since(t0).Seconds(), Violations: len(violations)}
	evDir := filepath.Join(verifRoot, "evidence")
	if os.Getenv("VERIF_REPO") != "" || os.Getenv("VERIF_ALSO") != "" {
		evDir = filepath.Join(verifRoot, "out", "alt")
	}
	os.MkdirAll(evDir, 0o755)
	if err := writeJSON(filepath.Join(evDir, id+".json"), ev); err != nil {
		fail(err)
	}
	if len(budgetHits) > 0 {
		// the claim of these harnesses is reduced to the paths explored within the budget
		fmt.Printf("NOTE path budget hit in %d harnesses (their claim covers the explored paths only): %s\n", len(budgetHits), strings.Join(firstN(budgetHits, 6), " "))
	}
	fmt.Printf("property=%s tier=%s harnesses=%d paths=%d obligations=%d discharged=%d undischarged=%d unsupported-kinds=%d candidates=%d violations=%d known=%d unconfirmed=%d wall=%.1fs\n",
		id, *tier, len(results), totals["paths"], totals["obligations"], totals["discharged"], totals["undischarged"], len(allUnsup), totals["candidates"], len(violations), len(seenK), len(unconfirmed), time.Since(t0).Seconds())
	if len(violations) > 0 {
		ex.close()
		os.Exit(1)
	}
}

func keys(m map[string]bool) []string {
	var out []string
	for k := range m {
		out = append(out, k)
	}
	sort.Strings(out)
	return out
}

func assumptionsFor(id string, notes map[string]int) []string {
	a := []string{
		"go/packages + go/ssa (x/tools v0.29.0) construct the SSA the engine executes; the engine (gosym) and its stubs are trusted",
		"Go integers are modelled as mathematical integers; additions/subtractions on narrow or unsigned types carry no-wrap side conditions checked per path (reported as undischarged if they can fail)",
		"strings and []byte are SMT strings over code points 0..255 (one per byte)",
		"functions of cty, math/big, strconv, net/url, encoding/json and other non-interpreted packages are executed natively on concrete arguments only (never symbolically)",
		"sync primitives are single-threaded no-ops; goroutine schedules are not explored",
		"solver verdicts (cvc5 1.0 / z3) are trusted; candidate violations are only reported after a native replay reproduced them",
	}
	for k := range notes {
		if strings.HasPrefix(k, "assume:") {
			a = append(a, strings.TrimPrefix(k, "assume:"))
		}
	}
	sort.Strings(a[6:])
	return a
}

func cmdReplay(args []string) {
	if len(args) < 1 {
		fmt.Fprintln(os.Stderr, "usage: gosym replay <file.json>")
		os.Exit(2)
	}
	b, err := os.ReadFile(args[0])
	if err != nil {
		fmt.Fprintln(os.Stderr, err)
		os.Exit(2)
	}
	var rf replayFile
	if err := json.Unmarshal(b, &rf); err != nil {
		fmt.Fprintln(os.Stderr, err)
		os.Exit(2)
	}
	outcome, out := replayModel(rf.Pkg, rf.Func, rf.Model, rf.Tier, false)
	fmt.Println(tailLines(out, 60))
	fmt.Println("outcome:", outcome)
	if outcomeConfirms(rf.Kind, rf.Tag, outcome) {
		fmt.Printf("VIOLATION property=%s replay=%s\n", rf.Property, args[0])
		os.Exit(1)
	}
}

func firstN(xs []string, n int) []string {
	if len(xs) > n {
		return xs[:n]
	}
	return xs
}
