package main

// Value model. Derived from golang.org/x/tools/go/ssa/interp (v0.29.0,
// Copyright 2013 The Go Authors, BSD-style licence; see LICENSE.golang in this
// directory), extended with symbolic scalars, symbolic byte buffers, opaque
// native handles and insertion-ordered maps.
//
// Dynamic types of `value`:
//   bool, int..uintptr, float32/64, complex64/128, string       concrete scalars
//   symInt, symBool, symStr                                     symbolic scalars
//   *value                                                      pointers
//   *byteRef                                                    pointer to one byte of a symbolic buffer
//   []value                                                     slices (any element type)
//   *symBytes                                                   []byte backed by a String term
//   structure, array, iface, tuple, *omap, *closure, *ssa.Function, *ssa.Builtin
//   native                                                      opaque native value (reflect.Value)
//   *nativeFunc                                                 native func callable from interpreted code

import (
	"fmt"
	"go/types"
	"reflect"
	"strconv"
	"strings"

	"golang.org/x/tools/go/ssa"
)

type value interface{}

type tuple []value
type array []value
type structure []value

type iface struct {
	t types.Type // never an "untyped" type
	v value
}

type closure struct {
	Fn  *ssa.Function
	Env []value
}

type bad struct{}

type symInt struct {
	t *term
	k types.BasicKind
}
type symBool struct{ t *term }
type symStr struct{ t *term }

// byteBuf is the backing store of a symbolic []byte.
type byteBuf struct {
	s  *term // String term: the whole backing array
	id int
}

type symBytes struct {
	buf       *byteBuf
	off, n, c *term // Int terms: offset into buf, length, capacity (from off)
}

type byteRef struct {
	buf *byteBuf
	idx *term
}

type native struct{ rv reflect.Value }

// ---------------------------------------------------------------------------
// conversions between values and terms

func isSym(v value) bool {
	switch v.(type) {
	case symInt, symBool, symStr:
		return true
	}
	return false
}

func intTerm(v value) *term {
	switch x := v.(type) {
	case symInt:
		return x.t
	case int:
		return mkInt(int64(x))
	case int8:
		return mkInt(int64(x))
	case int16:
		return mkInt(int64(x))
	case int32:
		return mkInt(int64(x))
	case int64:
		return mkInt(x)
	case uint:
		return mkInt(int64(x))
	case uint8:
		return mkInt(int64(x))
	case uint16:
		return mkInt(int64(x))
	case uint32:
		return mkInt(int64(x))
	case uint64:
		if x > 1<<62 {
			panic(unsupported("uint64 beyond 2^62 in a symbolic context"))
		}
		return mkInt(int64(x))
	case uintptr:
		return mkInt(int64(x))
	}
	panic(fmt.Sprintf("intTerm: %T", v))
}

func boolTerm(v value) *term {
	switch x := v.(type) {
	case symBool:
		return x.t
	case bool:
		return mkBool(x)
	}
	panic(fmt.Sprintf("boolTerm: %T", v))
}

func strTerm(v value) *term {
	switch x := v.(type) {
	case symStr:
		return x.t
	case string:
		return mkStr(x)
	}
	panic(fmt.Sprintf("strTerm: %T", v))
}

func basicKindOf(t types.Type) types.BasicKind {
	if b, ok := t.Underlying().(*types.Basic); ok {
		k := b.Kind()
		switch k {
		case types.UntypedInt:
			return types.Int
		case types.UntypedRune:
			return types.Int32
		case types.UntypedBool:
			return types.Bool
		case types.UntypedString:
			return types.String
		case types.UntypedFloat:
			return types.Float64
		}
		return k
	}
	return types.Invalid
}

func kindOfValue(v value) types.BasicKind {
	switch x := v.(type) {
	case symInt:
		return x.k
	case int:
		return types.Int
	case int8:
		return types.Int8
	case int16:
		return types.Int16
	case int32:
		return types.Int32
	case int64:
		return types.Int64
	case uint:
		return types.Uint
	case uint8:
		return types.Uint8
	case uint16:
		return types.Uint16
	case uint32:
		return types.Uint32
	case uint64:
		return types.Uint64
	case uintptr:
		return types.Uintptr
	}
	return types.Invalid
}

func concreteInt(i int64, k types.BasicKind) value {
	switch k {
	case types.Int:
		return int(i)
	case types.Int8:
		return int8(i)
	case types.Int16:
		return int16(i)
	case types.Int32:
		return int32(i)
	case types.Int64:
		return i
	case types.Uint:
		return uint(i)
	case types.Uint8:
		return uint8(i)
	case types.Uint16:
		return uint16(i)
	case types.Uint32:
		return uint32(i)
	case types.Uint64:
		return uint64(i)
	case types.Uintptr:
		return uintptr(i)
	}
	panic(fmt.Sprintf("concreteInt: kind %v", k))
}

func intRange(k types.BasicKind) (lo, hi int64) {
	switch k {
	case types.Int, types.Int64:
		return -1 << 62, 1 << 62
	case types.Int8:
		return -128, 127
	case types.Int16:
		return -32768, 32767
	case types.Int32:
		return -1 << 31, 1<<31 - 1
	case types.Uint, types.Uint64, types.Uintptr:
		return 0, 1 << 62
	case types.Uint8:
		return 0, 255
	case types.Uint16:
		return 0, 65535
	case types.Uint32:
		return 0, 1<<32 - 1
	}
	return -1 << 62, 1 << 62
}

func intVal(t *term, k types.BasicKind) value {
	if t.isConst() {
		return concreteInt(t.i, k)
	}
	return symInt{t, k}
}

func boolVal(t *term) value {
	if t.isConst() {
		return t.b
	}
	return symBool{t}
}

func strVal(t *term) value {
	if t.isConst() {
		return t.s
	}
	return symStr{t}
}

// ---------------------------------------------------------------------------
// insertion-ordered maps

type ment struct {
	k, v    value
	ck      string
	hasCk   bool
	deleted bool
}

type omap struct {
	keyT types.Type
	ents []*ment
	idx  map[string]int
	live int
	sym  int // number of live entries without a canonical key
}

func makeMap(kt types.Type) *omap {
	return &omap{keyT: kt, idx: map[string]int{}}
}

// ckey returns a canonical string for a concrete comparable value.
func ckey(v value) (string, bool) {
	switch x := v.(type) {
	case bool:
		if x {
			return "T", true
		}
		return "F", true
	case string:
		return "s" + x, true
	case int, int8, int16, int32, int64, uint, uint8, uint16, uint32, uint64, uintptr:
		return "i" + strconv.FormatInt(intTerm(x).i, 10), true
	case float32, float64, complex64, complex128:
		return fmt.Sprintf("f%v", x), true
	case *value:
		return fmt.Sprintf("p%p", x), true
	case *omap:
		return fmt.Sprintf("m%p", x), true
	case iface:
		if x.t == nil {
			return "nil", true
		}
		s, ok := ckey(x.v)
		return "I" + x.t.String() + ":" + s, ok
	case structure:
		var b strings.Builder
		b.WriteString("{")
		for _, f := range x {
			s, ok := ckey(f)
			if !ok {
				return "", false
			}
			b.WriteString(strconv.Itoa(len(s)))
			b.WriteByte(':')
			b.WriteString(s)
		}
		return b.String(), true
	case array:
		var b strings.Builder
		b.WriteString("[")
		for _, f := range x {
			s, ok := ckey(f)
			if !ok {
				return "", false
			}
			b.WriteString(strconv.Itoa(len(s)))
			b.WriteByte(':')
			b.WriteString(s)
		}
		return b.String(), true
	case native:
		if x.rv.IsValid() && x.rv.Type().Comparable() && x.rv.CanInterface() {
			return fmt.Sprintf("n%s:%#v", x.rv.Type(), x.rv.Interface()), true
		}
		return "", false
	}
	return "", false
}

func (m *omap) len() int {
	if m == nil {
		return 0
	}
	return m.live
}

// find returns the entry for k, deciding symbolic equalities on the path.
func (in *interp) mapFind(m *omap, k value) *ment {
	if m == nil {
		return nil
	}
	ck, ok := ckey(k)
	if ok && m.sym == 0 {
		if i, ok := m.idx[ck]; ok {
			return m.ents[i]
		}
		return nil
	}
	if ok {
		if i, ok := m.idx[ck]; ok {
			return m.ents[i]
		}
	}
	for _, e := range m.ents {
		if e.deleted {
			continue
		}
		if ok && e.hasCk {
			continue // both concrete and different
		}
		c := in.equalsT(m.keyT, k, e.k)
		if in.branch(c, "map-key-eq") {
			return e
		}
	}
	return nil
}

func (in *interp) mapInsert(m *omap, k, v value) {
	if e := in.mapFind(m, k); e != nil {
		e.v = v
		return
	}
	ck, ok := ckey(k)
	e := &ment{k: k, v: v, ck: ck, hasCk: ok}
	m.ents = append(m.ents, e)
	if ok {
		m.idx[ck] = len(m.ents) - 1
	} else {
		m.sym++
	}
	m.live++
}

func (in *interp) mapDelete(m *omap, k value) {
	e := in.mapFind(m, k)
	if e == nil {
		return
	}
	e.deleted = true
	m.live--
	if e.hasCk {
		delete(m.idx, e.ck)
	} else {
		m.sym--
	}
}

// ---------------------------------------------------------------------------
// equality

func sameType(x, y types.Type) bool {
	if x == nil {
		return y == nil
	}
	return y != nil && types.Identical(x, y)
}

// equalsT returns the Bool term of x == y for type t.
func (in *interp) equalsT(t types.Type, x, y value) *term {
	switch x := x.(type) {
	case bool, symBool:
		return tEq(boolTerm(x), boolTerm(y))
	case int, int8, int16, int32, int64, uint, uint8, uint16, uint32, uint64, uintptr, symInt:
		if u, ok := x.(uint64); ok {
			if v, ok := y.(uint64); ok {
				return mkBool(u == v)
			}
		}
		return tEq(intTerm(x), intTerm(y))
	case float32:
		return mkBool(x == y.(float32))
	case float64:
		return mkBool(x == y.(float64))
	case complex64:
		return mkBool(x == y.(complex64))
	case complex128:
		return mkBool(x == y.(complex128))
	case string, symStr:
		return tEq(in.rs(strTerm(x)), in.rs(strTerm(y)))
	case *value:
		if yy, ok := y.(*value); ok {
			return mkBool(x == yy)
		}
		return tFalse
	case *byteRef:
		if yy, ok := y.(*byteRef); ok {
			return tAnd(mkBool(x.buf == yy.buf), tEq(x.idx, yy.idx))
		}
		return tFalse
	case structure:
		y := y.(structure)
		tStruct := t.Underlying().(*types.Struct)
		var cs []*term
		for i, n := 0, tStruct.NumFields(); i < n; i++ {
			if f := tStruct.Field(i); f.Name() != "_" {
				c := in.equalsT(f.Type(), x[i], y[i])
				if c.isConst() && !c.b {
					return tFalse
				}
				cs = append(cs, c)
			}
		}
		return tAnd(cs...)
	case array:
		y := y.(array)
		tElt := t.Underlying().(*types.Array).Elem()
		var cs []*term
		for i, xi := range x {
			c := in.equalsT(tElt, xi, y[i])
			if c.isConst() && !c.b {
				return tFalse
			}
			cs = append(cs, c)
		}
		return tAnd(cs...)
	case iface:
		y := y.(iface)
		if !sameType(x.t, y.t) {
			return tFalse
		}
		if x.t == nil {
			return tTrue
		}
		if !types.Comparable(x.t) {
			if _, isNative := x.v.(native); !isNative {
				panic(targetPanic{v: in.runtimeError("comparing uncomparable type " + x.t.String())})
			}
		}
		return in.equalsT(x.t, x.v, y.v)
	case native:
		yy, ok := y.(native)
		if !ok {
			return tFalse
		}
		return mkBool(nativeEqual(x, yy))
	case *omap:
		return mkBool(x == y.(*omap))
	case *ssa.Function, *closure, *nativeFunc:
		return mkBool(x == y)
	}
	panic(fmt.Sprintf("comparing uncomparable type %s (%T)", t, x))
}

func nativeEqual(x, y native) (eq bool) {
	if !x.rv.IsValid() || !y.rv.IsValid() {
		return x.rv.IsValid() == y.rv.IsValid()
	}
	defer func() {
		if r := recover(); r != nil {
			panic(targetPanic{v: fmt.Sprint(r)})
		}
	}()
	return x.rv.Interface() == y.rv.Interface()
}

// ---------------------------------------------------------------------------
// load / store

func load(T types.Type, addr *value) value {
	switch T := T.Underlying().(type) {
	case *types.Struct:
		v, ok := (*addr).(structure)
		if !ok {
			return *addr // opaque native struct
		}
		a := make(structure, len(v))
		for i := range a {
			a[i] = load(T.Field(i).Type(), &v[i])
		}
		return a
	case *types.Array:
		v := (*addr).(array)
		a := make(array, len(v))
		for i := range a {
			a[i] = load(T.Elem(), &v[i])
		}
		return a
	default:
		return *addr
	}
}

func (in *interp) store(T types.Type, addr *value, v value) {
	switch T := T.Underlying().(type) {
	case *types.Struct:
		lhs, ok := (*addr).(structure)
		if !ok {
			in.noteWrite(addr, v)
			*addr = v
			return
		}
		rhs := v.(structure)
		for i := range lhs {
			in.store(T.Field(i).Type(), &lhs[i], rhs[i])
		}
	case *types.Array:
		lhs := (*addr).(array)
		rhs := v.(array)
		for i := range lhs {
			in.store(T.Elem(), &lhs[i], rhs[i])
		}
	default:
		in.noteWrite(addr, v)
		*addr = v
	}
}

// copyVal makes an unaliased copy of aggregate values (struct/array); other
// values are immutable or references.
func copyVal(v value) value {
	switch x := v.(type) {
	case structure:
		a := make(structure, len(x))
		for i := range x {
			a[i] = copyVal(x[i])
		}
		return a
	case array:
		a := make(array, len(x))
		for i := range x {
			a[i] = copyVal(x[i])
		}
		return a
	}
	return v
}

func toString(v value) string {
	var b strings.Builder
	writeValue(&b, v, 0)
	return b.String()
}

func writeValue(buf *strings.Builder, v value, depth int) {
	if depth > 6 {
		buf.WriteString("…")
		return
	}
	switch v := v.(type) {
	case nil, bool, int, int8, int16, int32, int64, uint, uint8, uint16, uint32, uint64, uintptr, float32, float64, complex64, complex128:
		fmt.Fprintf(buf, "%v", v)
	case string:
		fmt.Fprintf(buf, "%q", v)
	case symInt:
		buf.WriteString(v.t.String())
	case symBool:
		buf.WriteString(v.t.String())
	case symStr:
		buf.WriteString(v.t.String())
	case *omap:
		buf.WriteString("map[")
		if v != nil {
			for i, e := range v.ents {
				if e.deleted {
					continue
				}
				if i > 0 {
					buf.WriteString(" ")
				}
				writeValue(buf, e.k, depth+1)
				buf.WriteString(":")
				writeValue(buf, e.v, depth+1)
			}
		}
		buf.WriteString("]")
	case *value:
		if v == nil {
			buf.WriteString("<nil>")
		} else {
			buf.WriteString("&")
			writeValue(buf, *v, depth+1)
		}
	case iface:
		if v.t == nil {
			buf.WriteString("nil")
			return
		}
		fmt.Fprintf(buf, "(%s)", v.t)
		writeValue(buf, v.v, depth+1)
	case structure:
		buf.WriteString("{")
		for i, e := range v {
			if i > 0 {
				buf.WriteString(" ")
			}
			writeValue(buf, e, depth+1)
		}
		buf.WriteString("}")
	case array:
		buf.WriteString("[")
		for i, e := range v {
			if i > 0 {
				buf.WriteString(" ")
			}
			writeValue(buf, e, depth+1)
		}
		buf.WriteString("]")
	case []value:
		buf.WriteString("[")
		for i, e := range v {
			if i > 0 {
				buf.WriteString(" ")
			}
			writeValue(buf, e, depth+1)
		}
		buf.WriteString("]")
	case *symBytes:
		fmt.Fprintf(buf, "bytes(%s)[%s:+%s]", v.buf.s, v.off, v.n)
	case *ssa.Function:
		if v == nil {
			buf.WriteString("nil-func")
		} else {
			buf.WriteString(v.String())
		}
	case *closure:
		buf.WriteString("closure:" + v.Fn.String())
	case native:
		if v.rv.IsValid() && v.rv.CanInterface() {
			fmt.Fprintf(buf, "native(%v)", v.rv.Interface())
		} else {
			buf.WriteString("native(?)")
		}
	case tuple:
		buf.WriteString("(")
		for i, e := range v {
			if i > 0 {
				buf.WriteString(", ")
			}
			writeValue(buf, e, depth+1)
		}
		buf.WriteString(")")
	default:
		fmt.Fprintf(buf, "<%T>", v)
	}
}
