package main

// Stubs at the library boundary (DESIGN.md §3.4). Every stub is part of the
// claim; the names used on a run are listed in the evidence file.

import (
	"bytes"
	"fmt"
	"go/token"
	"go/types"
	"strconv"
	"strings"

	"golang.org/x/tools/go/ssa"
)

type engineFunc struct {
	name string
	f    func(in *interp, args []value) value
}

var stubTable = map[string]stubFn{}

func init() {
	stubTable["fmt.Sprintf"] = stubSprintf
	stubTable["fmt.Errorf"] = stubErrorf
	stubTable["fmt.Sprint"] = stubSprint
	stubTable["context.Background"] = stubCtxBackground
	stubTable["context.TODO"] = stubCtxBackground
	stubTable["context.WithValue"] = stubCtxWithValue
	stubTable["(*context.valueCtx).Value"] = stubCtxValue
	stubTable["(context.backgroundCtx).Value"] = func(in *interp, fr *frame, fn *ssa.Function, args []value) value { return iface{} }
	stubTable["(context.todoCtx).Value"] = stubTable["(context.backgroundCtx).Value"]
	stubTable["(context.emptyCtx).Value"] = stubTable["(context.backgroundCtx).Value"]
	stubTable["sort.Slice"] = stubSortSlice
	stubTable["sort.SliceStable"] = stubSortSlice
	stubTable["internal/bytealg.IndexByteString"] = stubIndexByte
	stubTable["internal/bytealg.IndexByte"] = stubIndexByte
	stubTable["internal/bytealg.IndexString"] = stubIndexString
	stubTable["internal/bytealg.Index"] = stubIndexString
	stubTable["internal/bytealg.CountString"] = stubCount
	stubTable["internal/bytealg.Count"] = stubCount
	stubTable["internal/bytealg.Equal"] = stubBytesEqual
	stubTable["bytes.Equal"] = stubBytesEqual
	stubTable["bytes.Compare"] = stubBytesCompare
	stubTable["internal/bytealg.Compare"] = stubBytesCompare
	stubTable["strings.Index"] = stubIndexString
	stubTable["strings.Contains"] = stubContains
	stubTable["bytes.Contains"] = stubContains
	stubTable["strings.HasPrefix"] = stubHasPrefix
	stubTable["bytes.HasPrefix"] = stubHasPrefix
	stubTable["strings.HasSuffix"] = stubHasSuffix
	stubTable["bytes.HasSuffix"] = stubHasSuffix
	stubTable["strings.TrimSuffix"] = stubTrimSuffix
	stubTable["strings.TrimPrefix"] = stubTrimPrefix
	stubTable["strings.Repeat"] = stubRepeat
	stubTable["strings.Join"] = stubJoin
	stubTable["errors.New"] = stubErrorsNew
	stubTable["errors.Is"] = stubErrorsIs
	stubTable["errors.As"] = stubErrorsAs
	stubTable["(*sync.Mutex).Lock"] = stubNop
	stubTable["(*sync.Mutex).Unlock"] = stubNop
	stubTable["(*sync.RWMutex).Lock"] = stubNop
	stubTable["(*sync.RWMutex).Unlock"] = stubNop
	stubTable["(*sync.RWMutex).RLock"] = stubNop
	stubTable["(*sync.RWMutex).RUnlock"] = stubNop
	stubTable["runtime.Callers"] = func(in *interp, fr *frame, fn *ssa.Function, args []value) value { return 0 }
	stubTable["runtime/debug.Stack"] = func(in *interp, fr *frame, fn *ssa.Function, args []value) value { return []value(nil) }
	stubTable["strconv.Itoa"] = stubItoa
	stubTable["strconv.Quote"] = stubQuote
	stubTable["unicode/utf8.RuneCountInString"] = stubRuneCount
	stubTable["unicode/utf8.RuneCount"] = stubRuneCount
}

func stubNop(in *interp, fr *frame, fn *ssa.Function, args []value) value {
	in.p.note("stub:sync-single-threaded")
	return nil
}

func anyStrTerm(v value) *term {
	switch x := v.(type) {
	case string, symStr:
		return strTerm(x)
	case *symBytes:
		return x.content()
	case []value:
		parts := make([]*term, len(x))
		for i, e := range x {
			parts[i] = tFromCode(intTerm(e))
		}
		return tConcat(parts...)
	}
	panic(fmt.Sprintf("anyStrTerm: %T", v))
}

func stubIndexByte(in *interp, fr *frame, fn *ssa.Function, args []value) value {
	s := in.rs(anyStrTerm(args[0]))
	c := tFromCode(intTerm(args[1]))
	return intVal(tIndexOf(s, c, mkInt(0)), types.Int)
}

func stubIndexString(in *interp, fr *frame, fn *ssa.Function, args []value) value {
	return intVal(tIndexOf(in.rs(anyStrTerm(args[0])), in.rs(anyStrTerm(args[1])), mkInt(0)), types.Int)
}

func stubContains(in *interp, fr *frame, fn *ssa.Function, args []value) value {
	return boolVal(tContains(in.rs(anyStrTerm(args[0])), in.rs(anyStrTerm(args[1]))))
}

func stubHasPrefix(in *interp, fr *frame, fn *ssa.Function, args []value) value {
	return boolVal(tPrefixOf(in.rs(anyStrTerm(args[1])), in.rs(anyStrTerm(args[0]))))
}

func stubHasSuffix(in *interp, fr *frame, fn *ssa.Function, args []value) value {
	return boolVal(tSuffixOf(in.rs(anyStrTerm(args[1])), in.rs(anyStrTerm(args[0]))))
}

func stubTrimSuffix(in *interp, fr *frame, fn *ssa.Function, args []value) value {
	s, suf := in.rs(anyStrTerm(args[0])), in.rs(anyStrTerm(args[1]))
	if s.isConst() && suf.isConst() {
		return strings.TrimSuffix(s.s, suf.s)
	}
	if in.branch(tSuffixOf(suf, s), "TrimSuffix") {
		return strVal(tSubstr(s, mkInt(0), tSub(tLen(s), tLen(suf))))
	}
	return strVal(s)
}

func stubTrimPrefix(in *interp, fr *frame, fn *ssa.Function, args []value) value {
	s, pre := in.rs(anyStrTerm(args[0])), in.rs(anyStrTerm(args[1]))
	if s.isConst() && pre.isConst() {
		return strings.TrimPrefix(s.s, pre.s)
	}
	if in.branch(tPrefixOf(pre, s), "TrimPrefix") {
		return strVal(tSubstr(s, tLen(pre), tSub(tLen(s), tLen(pre))))
	}
	return strVal(s)
}

func stubRepeat(in *interp, fr *frame, fn *ssa.Function, args []value) value {
	s := anyStrTerm(args[0])
	if isSym(args[1]) {
		panic(unsupported("strings.Repeat with symbolic count"))
	}
	n := int(asInt64(args[1]))
	if n < 0 {
		panic(targetPanic{v: "strings: negative Repeat count"})
	}
	parts := make([]*term, n)
	for i := range parts {
		parts[i] = s
	}
	return strVal(tConcat(parts...))
}

func stubJoin(in *interp, fr *frame, fn *ssa.Function, args []value) value {
	elems := args[0].([]value)
	sep := anyStrTerm(args[1])
	var parts []*term
	for i, e := range elems {
		if i > 0 {
			parts = append(parts, sep)
		}
		parts = append(parts, strTerm(e))
	}
	return strVal(tConcat(parts...))
}

func stubCount(in *interp, fr *frame, fn *ssa.Function, args []value) value {
	s := anyStrTerm(args[0])
	if !s.isConst() {
		panic(unsupported("Count on symbolic string"))
	}
	switch c := args[1].(type) {
	case uint8:
		return strings.Count(s.s, string([]byte{c}))
	case string:
		return strings.Count(s.s, c)
	}
	panic(unsupported("Count"))
}

func stubBytesEqual(in *interp, fr *frame, fn *ssa.Function, args []value) value {
	return boolVal(tEq(in.rs(anyStrTerm(args[0])), in.rs(anyStrTerm(args[1]))))
}

func stubBytesCompare(in *interp, fr *frame, fn *ssa.Function, args []value) value {
	a, b := in.rs(anyStrTerm(args[0])), in.rs(anyStrTerm(args[1]))
	if a.isConst() && b.isConst() {
		return bytes.Compare([]byte(a.s), []byte(b.s))
	}
	return intVal(tIte(tEq(a, b), mkInt(0), tIte(tCmp("<", a, b), mkInt(-1), mkInt(1))), types.Int)
}

func stubItoa(in *interp, fr *frame, fn *ssa.Function, args []value) value {
	if !isSym(args[0]) {
		return strconv.Itoa(int(asInt64(args[0])))
	}
	return strVal(fmtInt(intTerm(args[0])))
}

func stubQuote(in *interp, fr *frame, fn *ssa.Function, args []value) value {
	if s, ok := args[0].(string); ok {
		return strconv.Quote(s)
	}
	in.p.note("assume:quoted-symbolic-string-needs-no-escape")
	return strVal(tConcat(mkStr(`"`), strTerm(args[0]), mkStr(`"`)))
}

func stubRuneCount(in *interp, fr *frame, fn *ssa.Function, args []value) value {
	s := anyStrTerm(args[0])
	if s.isConst() {
		return strings.Count(s.s, "") - 1
	}
	// ASCII-only symbolic strings: rune count = byte count. Non-ASCII would need decoding.
	in.p.note("assume:rune-count-of-symbolic-string-is-its-length(ascii)")
	panic(unsupported("RuneCount of symbolic string"))
}

func fmtInt(t *term) *term {
	if t.isConst() {
		return mkStr(strconv.FormatInt(t.i, 10))
	}
	return tIte(tCmp("<", t, mkInt(0)), tConcat(mkStr("-"), tFromInt(tNeg(t))), tFromInt(t))
}

// ---------------------------------------------------------------------------
// errors

func (in *interp) newErrorValue(msg value) value {
	errPkg := in.w.typesPkg("errors")
	tn := errPkg.Scope().Lookup("errorString").(*types.TypeName)
	cell := new(value)
	*cell = structure{msg}
	return iface{t: types.NewPointer(tn.Type()), v: cell}
}

func stubErrorsNew(in *interp, fr *frame, fn *ssa.Function, args []value) value {
	return in.newErrorValue(args[0])
}

func (in *interp) unwrapErr(e iface) (iface, bool) {
	if e.t == nil {
		return iface{}, false
	}
	if n, ok := e.v.(native); ok {
		m := n.rv.MethodByName("Unwrap")
		if !m.IsValid() || m.Type().NumIn() != 0 || m.Type().NumOut() != 1 || m.Type().Out(0) != errorRType {
			return iface{}, false
		}
		out := m.Call(nil)[0]
		r := in.fromNative(out, types.Universe.Lookup("error").Type()).(iface)
		return r, r.t != nil
	}
	ms := in.prog.MethodSets.MethodSet(e.t)
	sel := ms.Lookup(nil, "Unwrap")
	if sel == nil {
		return iface{}, false
	}
	f := in.prog.MethodValue(sel)
	if f == nil || f.Signature.Results().Len() != 1 {
		return iface{}, false
	}
	r, ok := in.call(in.top, 0, f, []value{e.v}).(iface)
	if !ok {
		return iface{}, false
	}
	return r, r.t != nil
}

func stubErrorsIs(in *interp, fr *frame, fn *ssa.Function, args []value) value {
	err, target := args[0].(iface), args[1].(iface)
	if err.t == nil || target.t == nil {
		return err.t == nil && target.t == nil
	}
	for n := 0; n < 20; n++ {
		if sameType(err.t, target.t) && types.Comparable(err.t) {
			if c := in.equalsT(err.t, err.v, target.v); in.branch(c, "errors.Is") {
				return true
			}
		}
		next, ok := in.unwrapErr(err)
		if !ok {
			return false
		}
		err = next
	}
	return false
}

func stubErrorsAs(in *interp, fr *frame, fn *ssa.Function, args []value) value {
	err := args[0].(iface)
	tgt := args[1].(iface)
	if tgt.t == nil {
		panic(targetPanic{v: "errors: target cannot be nil"})
	}
	pt, ok := tgt.t.Underlying().(*types.Pointer)
	if !ok {
		panic(targetPanic{v: "errors: target must be a non-nil pointer"})
	}
	want := pt.Elem()
	cell := tgt.v.(*value)
	for n := 0; n < 20 && err.t != nil; n++ {
		if _, isI := want.Underlying().(*types.Interface); isI {
			if types.AssignableTo(err.t, want) {
				in.store(want, cell, err)
				return true
			}
		} else if types.Identical(err.t, want) {
			in.store(want, cell, err.v)
			return true
		}
		next, ok := in.unwrapErr(err)
		if !ok {
			return false
		}
		err = next
	}
	return false
}

// ---------------------------------------------------------------------------
// context

func (in *interp) ctxType(name string) types.Type {
	return in.w.typesPkg("context").Scope().Lookup(name).(*types.TypeName).Type()
}

func stubCtxBackground(in *interp, fr *frame, fn *ssa.Function, args []value) value {
	return iface{t: in.ctxType("backgroundCtx"), v: structure{structure{}}}
}

func stubCtxWithValue(in *interp, fr *frame, fn *ssa.Function, args []value) value {
	parent := args[0].(iface)
	if parent.t == nil {
		panic(targetPanic{v: "cannot create context from nil parent"})
	}
	cell := new(value)
	*cell = structure{parent, args[1], args[2]}
	return iface{t: types.NewPointer(in.ctxType("valueCtx")), v: cell}
}

func stubCtxValue(in *interp, fr *frame, fn *ssa.Function, args []value) value {
	cur := iface{t: types.NewPointer(in.ctxType("valueCtx")), v: args[0]}
	key := args[1].(iface)
	vt := types.NewPointer(in.ctxType("valueCtx"))
	for cur.t != nil && types.Identical(cur.t, vt) {
		st := (*cur.v.(*value)).(structure)
		k := st[1].(iface)
		if sameType(k.t, key.t) && k.t != nil {
			if c := in.equalsT(k.t, k.v, key.v); in.branch(c, "ctx.Value") {
				return st[2]
			}
		}
		cur = st[0].(iface)
	}
	return iface{}
}

// ---------------------------------------------------------------------------
// sort.Slice / SliceStable

func stubSortSlice(in *interp, fr *frame, fn *ssa.Function, args []value) value {
	x := args[0].(iface)
	sl, ok := x.v.([]value)
	if !ok {
		if x.v == nil {
			return nil
		}
		panic(unsupported(fmt.Sprintf("sort.Slice of %T", x.v)))
	}
	swap := &engineFunc{name: "swapper", f: func(in *interp, a []value) value {
		i, j := int(asInt64(a[0])), int(asInt64(a[1]))
		in.noteWrite(&sl[i], sl[j])
		in.noteWrite(&sl[j], sl[i])
		sl[i], sl[j] = sl[j], sl[i]
		return nil
	}}
	ls := structure{args[1], swap}
	sortPkg := in.w.ssaPkgs["sort"]
	n := len(sl)
	if fn.Name() == "SliceStable" {
		in.call(fr, 0, sortPkg.Func("stable_func"), []value{ls, n})
		return nil
	}
	limit := 0
	for u := uint(n); u != 0; u >>= 1 {
		limit++
	}
	in.call(fr, 0, sortPkg.Func("pdqsort_func"), []value{ls, 0, n, limit})
	return nil
}

// ---------------------------------------------------------------------------
// fmt

type fmtArg struct {
	v      value // concrete Go value usable by native fmt, or symbolic scalar
	native interface{}
	sym    bool
	approx bool
}

func (in *interp) stringerOf(a iface) (value, bool) {
	if a.t == nil {
		return nil, false
	}
	if _, isNative := a.v.(native); isNative {
		return nil, false
	}
	if _, ok := a.t.(*nativeType); ok {
		return nil, false
	}
	ms := in.prog.MethodSets.MethodSet(a.t)
	for _, name := range []string{"Error", "String"} {
		sel := ms.Lookup(nil, name)
		if sel == nil {
			continue
		}
		sig, ok := sel.Type().(*types.Signature)
		if !ok || sig.Params().Len() != 0 || sig.Results().Len() != 1 || basicKindOf(sig.Results().At(0).Type()) != types.String {
			continue
		}
		f := in.prog.MethodValue(sel)
		if f == nil {
			continue
		}
		// a nil pointer receiver with a pointer method would panic natively inside fmt, which prints <nil>
		if p, isP := a.v.(*value); isP && p == nil {
			return "<nil>", true
		}
		return in.call(in.top, 0, f, []value{a.v}), true
	}
	return nil, false
}

func (in *interp) prepFmtArg(a value, verb byte) fmtArg {
	ia, ok := a.(iface)
	if !ok {
		ia = iface{t: types.Typ[types.Invalid], v: a}
	}
	if ia.t == nil {
		return fmtArg{native: nil}
	}
	if verb == 'T' {
		return fmtArg{native: typeNameForFmt(ia.t), v: "T"}
	}
	if isSym(ia.v) {
		return fmtArg{v: ia.v, sym: true}
	}
	if sb, ok := ia.v.(*symBytes); ok {
		c := sb.content()
		if c.isConst() {
			return fmtArg{native: []byte(c.s)}
		}
		return fmtArg{v: symStr{c}, sym: true}
	}
	if verb == 's' || verb == 'v' || verb == 'q' {
		if s, ok := in.stringerOf(ia); ok {
			if isSym(s) {
				return fmtArg{v: s, sym: true}
			}
			return fmtArg{native: s.(string)}
		}
	}
	if rt, err := in.w.reflectTypeOf(ia.t); err == nil {
		if nv, err := in.newMarsh().toNative(ia.v, ia.t, rt); err == nil && nv.CanInterface() {
			return fmtArg{native: nv.Interface()}
		}
	}
	in.p.note("fmt-approx:" + ia.t.String())
	return fmtArg{native: toString(ia.v), approx: true}
}

type typeNameForFmt types.Type

func (in *interp) sprintf(format value, argv []value) value {
	f, ok := format.(string)
	if !ok {
		panic(unsupported("symbolic format string"))
	}
	// split the format into literal pieces and verbs
	type piece struct {
		lit  string
		spec string // "%...v" or ""
		verb byte
	}
	var pieces []piece
	i := 0
	for i < len(f) {
		j := strings.IndexByte(f[i:], '%')
		if j < 0 {
			pieces = append(pieces, piece{lit: f[i:]})
			break
		}
		if j > 0 {
			pieces = append(pieces, piece{lit: f[i : i+j]})
		}
		k := i + j + 1
		for k < len(f) && strings.IndexByte("+-# 0123456789.*[]", f[k]) >= 0 {
			k++
		}
		if k >= len(f) {
			pieces = append(pieces, piece{lit: f[i+j:]})
			break
		}
		if f[k] == '%' {
			pieces = append(pieces, piece{lit: "%"})
		} else {
			pieces = append(pieces, piece{spec: f[i+j : k+1], verb: f[k]})
		}
		i = k + 1
	}
	var out []*term
	ai := 0
	for _, pc := range pieces {
		if pc.spec == "" {
			out = append(out, mkStr(pc.lit))
			continue
		}
		if strings.ContainsAny(pc.spec, "*[") {
			panic(unsupported("fmt: * or [n] in format"))
		}
		if ai >= len(argv) {
			out = append(out, mkStr("%!"+string(pc.verb)+"(MISSING)"))
			continue
		}
		a := in.prepFmtArg(argv[ai], pc.verb)
		ai++
		if tn, ok := a.native.(typeNameForFmt); ok {
			out = append(out, mkStr(types.TypeString(types.Type(tn), func(p *types.Package) string { return p.Name() })))
			continue
		}
		if !a.sym {
			out = append(out, mkStr(fmt.Sprintf(pc.spec, a.native)))
			continue
		}
		if len(pc.spec) != 2 {
			panic(unsupported("fmt: flags on a symbolic argument: " + pc.spec))
		}
		switch x := a.v.(type) {
		case symStr:
			switch pc.verb {
			case 's', 'v':
				out = append(out, x.t)
			case 'q':
				in.p.note("assume:quoted-symbolic-string-needs-no-escape")
				out = append(out, mkStr(`"`), x.t, mkStr(`"`))
			default:
				panic(unsupported("fmt: verb on symbolic string: " + pc.spec))
			}
		case symInt:
			switch pc.verb {
			case 'd', 'v':
				out = append(out, fmtInt(x.t))
			default:
				panic(unsupported("fmt: verb on symbolic int: " + pc.spec))
			}
		case symBool:
			out = append(out, tIte(x.t, mkStr("true"), mkStr("false")))
		}
	}
	if ai < len(argv) {
		out = append(out, mkStr("%!(EXTRA)"))
		in.p.note("fmt-extra-args")
	}
	return strVal(tConcat(out...))
}

func stubSprintf(in *interp, fr *frame, fn *ssa.Function, args []value) value {
	var argv []value
	if args[1] != nil {
		argv = args[1].([]value)
	}
	return in.sprintf(args[0], argv)
}

func stubSprint(in *interp, fr *frame, fn *ssa.Function, args []value) value {
	var argv []value
	if args[0] != nil {
		argv = args[0].([]value)
	}
	var out []*term
	for _, a := range argv {
		fa := in.prepFmtArg(a, 'v')
		if fa.sym {
			switch x := fa.v.(type) {
			case symStr:
				out = append(out, x.t)
			case symInt:
				out = append(out, fmtInt(x.t))
			case symBool:
				out = append(out, tIte(x.t, mkStr("true"), mkStr("false")))
			}
			continue
		}
		out = append(out, mkStr(fmt.Sprint(fa.native)))
	}
	// fmt.Sprint adds spaces between operands when neither is a string: approximated
	return strVal(tConcat(out...))
}

func stubErrorf(in *interp, fr *frame, fn *ssa.Function, args []value) value {
	var argv []value
	if args[1] != nil {
		argv = args[1].([]value)
	}
	f, _ := args[0].(string)
	// %w behaves like %v for the message
	var wrapped value
	if strings.Contains(f, "%w") {
		// find the operand of the first %w
		n := 0
		for i := 0; i+1 < len(f); i++ {
			if f[i] == '%' {
				if f[i+1] == '%' {
					i++
					continue
				}
				if f[i+1] == 'w' {
					if n < len(argv) {
						wrapped = argv[n]
					}
					break
				}
				n++
			}
		}
		f = strings.ReplaceAll(f, "%w", "%v")
	}
	msg := in.sprintf(f, argv)
	if wrapped != nil {
		if w, ok := wrapped.(iface); ok && w.t != nil {
			tn := in.w.typesPkg("fmt").Scope().Lookup("wrapError").(*types.TypeName)
			cell := new(value)
			*cell = structure{msg, w}
			return iface{t: types.NewPointer(tn.Type()), v: cell}
		}
	}
	return in.newErrorValue(msg)
}

func init() {
	// typeexpr's init#1 builds a capsule type with Go closures; take the
	// natively initialised value instead.
	stubTable["github.com/hashicorp/hcl/v2/ext/typeexpr.init#1"] = func(in *interp, fr *frame, fn *ssa.Function, args []value) value {
		pkg := in.w.ssaPkgs["github.com/hashicorp/hcl/v2/ext/typeexpr"]
		for name, m := range pkg.Members {
			if g, ok := m.(*ssa.Global); ok {
				if pv, ok := nativeVars[pkg.Pkg.Path()+"."+name]; ok && name == "TypeConstraintType" {
					*in.globalAddr(g) = in.fromNative(pv.Elem(), mustDeref(g.Type()))
				}
			}
		}
		return nil
	}
}

// fmt.Fprintf / Fprint to an interpreted writer: the text is formatted as by Sprintf / Sprint and
// handed to the writer's Write method (one call, as fmt does).
func init() {
	stubTable["fmt.Fprintf"] = func(in *interp, fr *frame, fn *ssa.Function, args []value) value {
		var argv []value
		if args[2] != nil {
			argv = args[2].([]value)
		}
		return in.writeTo(fr, args[0], in.sprintf(args[1], argv))
	}
	stubTable["fmt.Fprint"] = func(in *interp, fr *frame, fn *ssa.Function, args []value) value {
		return in.writeTo(fr, args[0], stubSprint(in, fr, fn, args[1:]))
	}
}

func (in *interp) writeTo(fr *frame, w value, s value) value {
	recv, ok := w.(iface)
	if !ok || recv.t == nil {
		in.nilDeref("Write on a nil io.Writer")
	}
	byteSlice := types.NewSlice(types.Typ[types.Byte])
	b := in.conv(byteSlice, types.Typ[types.String], s)
	if nt, ok := recv.t.(*nativeType); ok {
		return in.callNativeMethodByName(&nativeMethod{name: "Write", t: nt}, []value{recv.v, b})
	}
	sel := in.prog.MethodSets.MethodSet(recv.t).Lookup(nil, "Write")
	if sel == nil {
		panic(unsupported("fmt.Fprint to a writer without an exported Write method"))
	}
	return in.call(fr, token.NoPos, in.prog.MethodValue(sel), []value{recv.v, b})
}
