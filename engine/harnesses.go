package main

import (
	"sort"
	"strings"

	"golang.org/x/tools/go/ssa"
)

type harness struct {
	name   string // pkgdir.FuncName or pkgdir.FuncName#i
	fn     *ssa.Function
	pkg    string
	param  *ssa.Function // for VerifP_*: the companion _N function
	arg    int
	hasArg bool
}

// allHarnesses lists the functions named VerifH_* of the loaded hcl-lang packages.
func (w *world) allHarnesses() []harness {
	var hs []harness
	for path, p := range w.ssaPkgs {
		if !strings.HasPrefix(path, repoMod) {
			continue
		}
		for name, m := range p.Members {
			short := strings.TrimPrefix(strings.TrimPrefix(path, repoMod), "/")
			if f, ok := m.(*ssa.Function); ok && strings.HasPrefix(name, "VerifH_") {
				hs = append(hs, harness{name: short + "." + name, fn: f, pkg: path})
			}
			if f, ok := m.(*ssa.Function); ok && strings.HasPrefix(name, "VerifP_") && !strings.HasSuffix(name, "_N") {
				if nf := p.Func(name + "_N"); nf != nil {
					hs = append(hs, harness{name: short + "." + name, fn: f, pkg: path, param: nf})
				}
			}
		}
	}
	sort.Slice(hs, func(i, j int) bool { return hs[i].name < hs[j].name })
	return hs
}
