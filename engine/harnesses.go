package main

import (
	"sort"
	"strings"

	"golang.org/x/tools/go/ssa"
)

type harness struct {
	name string // pkgdir/FuncName
	fn   *ssa.Function
	pkg  string
}

// allHarnesses lists the functions named VerifH_* of the loaded hcl-lang packages.
func (w *world) allHarnesses() []harness {
	var hs []harness
	for path, p := range w.ssaPkgs {
		if !strings.HasPrefix(path, repoMod) {
			continue
		}
		for name, m := range p.Members {
			if f, ok := m.(*ssa.Function); ok && strings.HasPrefix(name, "VerifH_") {
				hs = append(hs, harness{name: strings.TrimPrefix(strings.TrimPrefix(path, repoMod), "/") + "." + name, fn: f, pkg: path})
			}
		}
	}
	sort.Slice(hs, func(i, j int) bool { return hs[i].name < hs[j].name })
	return hs
}
