package main

// Per-path state of the exploration: decision prefix, path condition,
// obligations, side conditions, candidate violations. A path is identified by
// its sequence of decisions; alternatives are explored by re-executing the
// harness from the start with a longer prefix (DESIGN.md §3.2(b)).

import (
	"fmt"
	"os"
	"sort"
	"strings"
	"sync/atomic"
)

type prefix struct {
	dec   []int
	model model // a model known to satisfy the path condition up to the last decision (may be nil)
}

type failure struct {
	Harness string `json:"harness"`
	Kind    string `json:"kind"` // bounds, nil-deref, assert, panic, div-zero, type-assert, write, ...
	Tag     string `json:"tag"`
	Where   string `json:"where"`
	Stack   string `json:"stack,omitempty"`
	Model   model  `json:"model"`
	Dec     []int  `json:"decisions"`
	Msg     string `json:"msg,omitempty"`
}

func (f *failure) key() string { return f.Harness + "|" + f.Kind + "|" + f.Tag + "|" + f.Where }

// pathAbort ends the current path (not an error of the program under test).
type pathAbort struct {
	status string // "infeasible", "unsupported", "unwind", "assume-false", "always-fails"
	detail string
}

var dumpQueries = os.Getenv("VERIF_DUMP_QUERIES") != ""
var checkIntervals = os.Getenv("VERIF_CHECK_INTERVALS") != ""
var intervalMismatches, intervalChecked int64

type pathStats struct {
	Decisions, Obligations, ObligationsTrivial, Discharged, Candidates, Undischarged int
	FeasQueries, ModelHits, IntervalHits                                             int
}

type pathCtx struct {
	s        *solver
	pre      prefix
	dec      []int
	pc       []*term
	vars     []*term
	varSeen  map[string]bool
	nameCnt  map[string]int
	cur      model // model of the current pc, if known
	children []prefix
	fails    []*failure
	reached  map[string]bool
	witness  map[string]model
	side     []*term // lazily checked no-wrap conditions
	sideDesc []string
	stats    pathStats
	harness  string
	undis    []string // undischarged obligations (unknown verdicts) on this path
	notes    map[string]int
	steps    int64
	maxSteps int64
	choices  map[string]int // recorded verifChoice results (for replay models)
	assumed  []string
	proved   map[string]bool
	facts    map[string]bool    // assumed constraints (interval.go)
	bounds   map[string]*ibound // box bounds implied by them
	groups   []sumGroup         // Σ atoms <= T constraints among them
	defs     map[string]*term   // atom = linear term (definitions taken from assumed equalities)
}

func newPathCtx(s *solver, pre prefix, harness string) *pathCtx {
	p := &pathCtx{s: s, pre: pre, harness: harness,
		varSeen: map[string]bool{}, nameCnt: map[string]int{},
		reached: map[string]bool{}, witness: map[string]model{},
		notes: map[string]int{}, choices: map[string]int{}, proved: map[string]bool{}}
	s.reset()
	if pre.model != nil {
		p.cur = pre.model
	} else {
		p.cur = model{}
	}
	return p
}

func (p *pathCtx) abort(status, detail string) {
	panic(pathAbort{status, detail})
}

func (p *pathCtx) freshName(base string) string {
	n := p.nameCnt[base]
	p.nameCnt[base] = n + 1
	if n == 0 {
		return base
	}
	return fmt.Sprintf("%s#%d", base, n)
}

func (p *pathCtx) newVar(base string, s sortKind) *term {
	// '|' and '\\' cannot occur in a quoted SMT-LIB symbol
	base = strings.NewReplacer("|", "/", "\\", "/").Replace(base)
	v := mkVar(p.freshName(base), s)
	p.vars = append(p.vars, v)
	p.varSeen[v.s] = true
	p.s.declare(v)
	return v
}

// assume adds c to the path condition.
func (p *pathCtx) assume(c *term) {
	if c.isConst() {
		if !c.b {
			p.abort("assume-false", "")
		}
		return
	}
	p.pc = append(p.pc, c)
	p.s.assert(c)
	p.noteFact(c)
	if p.cur != nil {
		if v, ok := p.cur.eval(c); !ok || v != true {
			p.cur = nil
		}
	}
}

// feasible asks whether pc ∧ c is satisfiable; on sat the model is returned.
func (p *pathCtx) feasible(c *term) (satResult, model) {
	if c.isConst() {
		if c.b {
			return rSat, p.cur
		}
		return rUnsat, nil
	}
	if p.cur != nil {
		if v, ok := p.cur.eval(c); ok && v == true {
			p.stats.ModelHits++
			return rSat, p.cur
		}
	}
	// decided by the bounds of the variables alone? (interval.go)
	switch tv := p.tri(c); tv {
	case triFalse, triTrue:
		if checkIntervals {
			// debugging aid: every shortcut verdict is compared with the solver's
			p.s.push()
			p.s.assert(c)
			r := p.s.checkSat()
			p.s.pop()
			atomic.AddInt64(&intervalChecked, 1)
			if (tv == triFalse && r == rSat) || (tv == triTrue && r == rUnsat) {
				atomic.AddInt64(&intervalMismatches, 1)
				fmt.Fprintf(os.Stderr, "INTERVAL-MISMATCH tri=%d solver=%v cond=%s\n  bounds=%v\n", tv, r, c.String(), p.boundsString())
			}
		}
		if tv == triFalse {
			p.stats.IntervalHits++
			return rUnsat, nil
		}
		if p.cur != nil {
			p.stats.IntervalHits++
			return rSat, p.cur
		}
	}
	p.stats.FeasQueries++
	if dumpQueries {
		s := c.String()
		if len(s) > 260 {
			s = s[:260]
		}
		fmt.Fprintln(os.Stderr, "QUERY", s)
	}
	p.s.push()
	p.s.assert(c)
	r := p.s.checkSat()
	var m model
	if r == rSat {
		m, _ = p.s.getValues(p.vars)
	}
	p.s.pop()
	return r, m
}

// decide makes an n-way decision among mutually exclusive alternatives.
func (p *pathCtx) decide(alts []*term, what string) int {
	k := len(p.dec)
	p.stats.Decisions++
	if k < len(p.pre.dec) {
		c := p.pre.dec[k]
		if c >= len(alts) {
			p.abort("replay-divergence", fmt.Sprintf("decision %d (%s): prefix wants %d of %d", k, what, c, len(alts)))
		}
		p.dec = append(p.dec, c)
		p.assume(alts[c])
		return c
	}
	type fe struct {
		i int
		m model
	}
	var feas []fe
	for i, a := range alts {
		r, m := p.feasible(a)
		switch r {
		case rSat:
			feas = append(feas, fe{i, m})
		case rUnknown:
			// keep the branch (over-approximation) but remember that a verdict was missing
			p.undis = append(p.undis, "feasibility-unknown:"+what)
			feas = append(feas, fe{i, nil})
		}
	}
	if len(feas) == 0 {
		p.abort("infeasible", what)
	}
	// prefer the alternative the current model already satisfies
	first := 0
	if p.cur != nil {
		for j, f := range feas {
			if v, ok := p.cur.eval(alts[f.i]); ok && v == true {
				first = j
				break
			}
		}
	}
	for j, f := range feas {
		if j == first {
			continue
		}
		d := append(append([]int{}, p.dec...), f.i)
		p.children = append(p.children, prefix{dec: d, model: f.m})
	}
	ch := feas[first]
	p.dec = append(p.dec, ch.i)
	if ch.m != nil && (p.cur == nil) {
		p.cur = ch.m
	}
	p.assume(alts[ch.i])
	if p.cur == nil && ch.m != nil {
		p.cur = ch.m
	}
	return ch.i
}

// branch decides a symbolic condition.
func (p *pathCtx) branch(c *term, what string) bool {
	if c.isConst() {
		return c.b
	}
	return p.decide([]*term{c, tNot(c)}, what) == 0
}

// choose is an unconditional n-way fork (verifChoice).
func (p *pathCtx) choose(n int, what string) int {
	alts := make([]*term, n)
	for i := range alts {
		alts[i] = tTrue
	}
	k := len(p.dec)
	p.stats.Decisions++
	if k < len(p.pre.dec) {
		c := p.pre.dec[k]
		p.dec = append(p.dec, c)
		return c
	}
	for i := 1; i < n; i++ {
		d := append(append([]int{}, p.dec...), i)
		p.children = append(p.children, prefix{dec: d, model: p.cur})
	}
	p.dec = append(p.dec, 0)
	return 0
}

// oblige checks that c holds on every continuation of this path; a
// satisfiable negation is a candidate violation (model attached). The path
// then continues under c.
func (p *pathCtx) oblige(c *term, kind, tag, where, stack string) {
	p.stats.Obligations++
	if c.isConst() {
		p.stats.ObligationsTrivial++
		if c.b {
			p.stats.Discharged++
			return
		}
		p.recordFailure(kind, tag, where, stack, p.modelNow())
		p.abort("always-fails", kind+" "+tag)
	}
	key := c.String()
	if p.proved[key] {
		p.stats.Discharged++
		p.stats.ObligationsTrivial++
		return
	}
	r, m := p.feasible(tNot(c))
	switch r {
	case rUnsat:
		p.proved[key] = true
		p.stats.Discharged++
	case rSat:
		p.recordFailure(kind, tag, where, stack, m)
	default:
		p.stats.Undischarged++
		p.undis = append(p.undis, kind+":"+tag+"@"+where)
	}
	if r != rUnsat {
		// continue on the side where the obligation holds, if there is one
		r2, m2 := p.feasible(c)
		if r2 == rUnsat {
			p.abort("always-fails", kind+" "+tag)
		}
		p.assume(c)
		if p.cur == nil && m2 != nil {
			p.cur = m2
		}
	}
}

func (p *pathCtx) modelNow() model {
	if p.cur != nil {
		return p.cur
	}
	p.s.push()
	r := p.s.checkSat()
	var m model
	if r == rSat {
		m, _ = p.s.getValues(p.vars)
	}
	p.s.pop()
	if m != nil {
		p.cur = m
	}
	return m
}

func (p *pathCtx) recordFailure(kind, tag, where, stack string, m model) {
	p.stats.Candidates++
	mm := model{}
	for k, v := range m {
		mm[k] = v
	}
	for k, v := range p.choices {
		mm[k] = int64(v)
	}
	p.fails = append(p.fails, &failure{Harness: p.harness, Kind: kind, Tag: tag, Where: where, Stack: stack,
		Model: mm, Dec: append([]int{}, p.dec...)})
}

// reach records a reachability witness.
func (p *pathCtx) reach(tag string) {
	if p.reached[tag] {
		return
	}
	p.reached[tag] = true
	if m := p.modelNow(); m != nil {
		mm := model{}
		for k, v := range m {
			mm[k] = v
		}
		for k, v := range p.choices {
			mm[k] = int64(v)
		}
		p.witness[tag] = mm
	}
}

// finish checks the lazily collected side conditions (no-wrap).
func (p *pathCtx) finish() {
	if len(p.side) == 0 {
		return
	}
	neg := make([]*term, len(p.side))
	for i, c := range p.side {
		neg[i] = tNot(c)
	}
	r, _ := p.feasible(tOr(neg...))
	if r != rUnsat {
		// find which
		seen := map[string]bool{}
		for i, c := range p.side {
			r, _ := p.feasible(tNot(c))
			if r != rUnsat && !seen[p.sideDesc[i]] {
				seen[p.sideDesc[i]] = true
				p.undis = append(p.undis, "wrap-possible:"+p.sideDesc[i])
			}
		}
	}
}

func (p *pathCtx) addSide(c *term, desc string) {
	if c.isConst() && c.b {
		return
	}
	if len(p.side) > 4000 {
		return
	}
	p.side = append(p.side, c)
	p.sideDesc = append(p.sideDesc, desc)
}

func (p *pathCtx) note(s string) { p.notes[s]++ }

func modelString(m model) string {
	keys := make([]string, 0, len(m))
	for k := range m {
		keys = append(keys, k)
	}
	sort.Strings(keys)
	var b strings.Builder
	for _, k := range keys {
		fmt.Fprintf(&b, "%s=%v ", k, m[k])
	}
	return b.String()
}
