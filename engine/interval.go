package main

// A cheap pre-solver for feasibility questions: most branch conditions met on
// a path compare positions, i.e. linear integer terms over a handful of
// bounded variables (extra blanks per gap, cursor offset, inserted-line
// lengths). If box bounds of those variables - taken only from constraints
// that are part of the path condition - already prove a condition valid or
// unsatisfiable, the solver is not asked. Facts assumed on the path are
// remembered as well. Both shortcuts only ever return what the solver would
// (the path condition is satisfiable whenever a path is alive); anything not
// decided here goes to the solver as before. VERIF_NO_INTERVALS=1 turns the
// shortcuts off (used to diff the two modes).

import (
	"fmt"
	"os"
)

var noIntervals = os.Getenv("VERIF_NO_INTERVALS") != ""

// sumGroup: atoms a_i with Σ a_i <= T (each known to be >= 0 through its own bound)
type sumGroup struct {
	atoms map[string]bool
	T     int64
}

type ibound struct {
	lo, hi       int64
	hasLo, hasHi bool
}

const (
	triUnknown = 0
	triTrue    = 1
	triFalse   = -1
)

// atomKey: the key under which an integer atom (a variable or a non-linear
// integer term such as str.len) is tracked; "" if t is not an atom.
func atomKey(t *term) string {
	if t.sort != sInt || t.isConst() {
		return ""
	}
	switch t.op {
	case "+", "-", "*":
		return ""
	}
	return t.String()
}

// noteFact records an assumed constraint: the fact itself, and box bounds it implies.
func (p *pathCtx) noteFact(c *term) {
	if noIntervals {
		return
	}
	if p.facts == nil {
		p.facts = map[string]bool{}
		p.bounds = map[string]*ibound{}
	}
	p.facts[c.String()] = true
	p.noteBounds(c)
}

func (p *pathCtx) noteBounds(c *term) {
	switch c.op {
	case "and":
		for _, a := range c.args {
			p.noteBounds(a)
		}
	case "<=", "<", ">=", ">":
		if len(c.args) != 2 || c.args[0].sort != sInt {
			return
		}
		a, b := c.args[0], c.args[1]
		op := c.op
		// Σ atoms <= T (the bound on the total of extra blanks): a group constraint
		if (op == "<=" || op == "<") && b.isConst() && a.op == "+" {
			var k int64
			coefs := map[string]int64{}
			if lin(a, 1, &k, coefs) && len(coefs) > 1 {
				unit := true
				for _, cf := range coefs {
					if cf != 1 {
						unit = false
					}
				}
				if unit {
					T := b.i - k
					if op == "<" {
						T--
					}
					g := sumGroup{atoms: map[string]bool{}, T: T}
					for key := range coefs {
						g.atoms[key] = true
					}
					p.groups = append(p.groups, g)
				}
			}
		}
		// normalise to atom OP const
		if a.isConst() && !b.isConst() {
			a, b = b, a
			switch op {
			case "<=":
				op = ">="
			case "<":
				op = ">"
			case ">=":
				op = "<="
			case ">":
				op = "<"
			}
		}
		k := atomKey(a)
		if k == "" {
			return
		}
		if !b.isConst() {
			// atom OP linear term: a bound follows from the range of the term over the box
			blo, bhi, okLo, okHi := p.diffRange(b, mkInt(0))
			switch op {
			case "<=", "<":
				if okHi {
					if op == "<" {
						bhi--
					}
					p.tighten(k, 0, bhi, false, true)
				}
			case ">=", ">":
				if okLo {
					if op == ">" {
						blo++
					}
					p.tighten(k, blo, 0, true, false)
				}
			}
			return
		}
		bd := p.bounds[k]
		if bd == nil {
			bd = &ibound{}
			p.bounds[k] = bd
		}
		switch op {
		case "<=":
			if !bd.hasHi || b.i < bd.hi {
				bd.hi, bd.hasHi = b.i, true
			}
		case "<":
			if !bd.hasHi || b.i-1 < bd.hi {
				bd.hi, bd.hasHi = b.i-1, true
			}
		case ">=":
			if !bd.hasLo || b.i > bd.lo {
				bd.lo, bd.hasLo = b.i, true
			}
		case ">":
			if !bd.hasLo || b.i+1 > bd.lo {
				bd.lo, bd.hasLo = b.i+1, true
			}
		}
	case "=":
		if len(c.args) == 2 && c.args[0].sort == sInt {
			a, b := c.args[0], c.args[1]
			if a.isConst() {
				a, b = b, a
			}
			if k := atomKey(a); k != "" && b.isConst() {
				p.bounds[k] = &ibound{lo: b.i, hi: b.i, hasLo: true, hasHi: true}
			} else if k != "" {
				// atom = linear term (cursor.byte = base + Σδ + off; str.len(x) = δ): a definition,
				// expanded wherever the atom occurs, unless that would be circular
				var kk int64
				cf := map[string]int64{}
				if lin(b, 1, &kk, cf) && p.defs[k] == nil && !p.mentions(b, k, 0) {
					if p.defs == nil {
						p.defs = map[string]*term{}
					}
					p.defs[k] = b
				}
			} else if k2 := atomKey(b); k2 != "" {
				var kk int64
				cf := map[string]int64{}
				if lin(a, 1, &kk, cf) && p.defs[k2] == nil && !p.mentions(a, k2, 0) {
					if p.defs == nil {
						p.defs = map[string]*term{}
					}
					p.defs[k2] = a
				}
			}
		}
	}
}

func (p *pathCtx) tighten(k string, lo, hi int64, setLo, setHi bool) {
	bd := p.bounds[k]
	if bd == nil {
		bd = &ibound{}
		p.bounds[k] = bd
	}
	if setLo && (!bd.hasLo || lo > bd.lo) {
		bd.lo, bd.hasLo = lo, true
	}
	if setHi && (!bd.hasHi || hi < bd.hi) {
		bd.hi, bd.hasHi = hi, true
	}
}

// mentions: does t (after expanding definitions) contain the atom k?
func (p *pathCtx) mentions(t *term, k string, depth int) bool {
	if depth > 8 {
		return true
	}
	if key := atomKey(t); key != "" {
		if key == k {
			return true
		}
		if d := p.defs[key]; d != nil {
			return p.mentions(d, k, depth+1)
		}
		return false
	}
	for _, a := range t.args {
		if p.mentions(a, k, depth+1) {
			return true
		}
	}
	return false
}

// expand: the linear form of t with defined atoms replaced by their definitions.
func (p *pathCtx) expand(coefs map[string]int64, k *int64) bool {
	for round := 0; round < 8; round++ {
		changed := false
		for key, c := range coefs {
			if c == 0 {
				continue
			}
			if def := p.defs[key]; def != nil {
				coefs[key] = 0
				if !lin(def, c, k, coefs) {
					return false
				}
				changed = true
			}
		}
		if !changed {
			return true
		}
	}
	return false
}

// lin: t as constant + Σ coef·atom.
func lin(t *term, scale int64, k *int64, coefs map[string]int64) bool {
	if t.sort != sInt {
		return false
	}
	if t.isConst() {
		*k += scale * t.i
		return true
	}
	switch t.op {
	case "+":
		for _, a := range t.args {
			if !lin(a, scale, k, coefs) {
				return false
			}
		}
		return true
	case "-":
		if len(t.args) == 1 {
			return lin(t.args[0], -scale, k, coefs)
		}
		if !lin(t.args[0], scale, k, coefs) {
			return false
		}
		for _, a := range t.args[1:] {
			if !lin(a, -scale, k, coefs) {
				return false
			}
		}
		return true
	case "*":
		if len(t.args) == 2 {
			if t.args[0].isConst() {
				return lin(t.args[1], scale*t.args[0].i, k, coefs)
			}
			if t.args[1].isConst() {
				return lin(t.args[0], scale*t.args[1].i, k, coefs)
			}
		}
		return false
	}
	key := atomKey(t)
	if key == "" {
		return false
	}
	coefs[key] += scale
	return true
}

// diffRange: bounds of a-b over the box; ok flags say which bound is finite.
func (p *pathCtx) diffRange(a, b *term) (lo, hi int64, okLo, okHi bool) {
	var k int64
	coefs := map[string]int64{}
	if !lin(a, 1, &k, coefs) || !lin(b, -1, &k, coefs) {
		return 0, 0, false, false
	}
	if len(p.defs) > 0 && !p.expand(coefs, &k) {
		return 0, 0, false, false
	}
	lo, hi, okLo, okHi = k, k, true, true
	// atoms covered by a group constraint Σ a_i <= T with a_i >= 0: their weighted sum lies in
	// [T·min(0, min c_i), T·max(0, max c_i)]; use that where it is tighter than the box
	for _, g := range p.groups {
		var maxc, minc int64
		var boxLo, boxHi int64
		n := 0
		usable := true
		for key, c := range coefs {
			if c == 0 || !g.atoms[key] {
				continue
			}
			bd := p.bounds[key]
			if bd == nil || !bd.hasLo || bd.lo < 0 || !bd.hasHi {
				usable = false
				break
			}
			n++
			if c > maxc {
				maxc = c
			}
			if c < minc {
				minc = c
			}
			if c > 0 {
				boxHi += c * bd.hi
				boxLo += c * bd.lo
			} else {
				boxHi += c * bd.lo
				boxLo += c * bd.hi
			}
		}
		if !usable || n < 2 || g.T < 0 {
			continue
		}
		gHi, gLo := g.T*maxc, g.T*minc
		if gHi < boxHi || gLo > boxLo {
			// take the group bounds for these atoms and drop them from the box pass
			if gHi < boxHi {
				hi += gHi
			} else {
				hi += boxHi
			}
			if gLo > boxLo {
				lo += gLo
			} else {
				lo += boxLo
			}
			for key := range coefs {
				if g.atoms[key] {
					coefs[key] = 0
				}
			}
		}
	}
	for key, c := range coefs {
		if c == 0 {
			continue
		}
		if c > 1<<20 || c < -(1<<20) {
			return 0, 0, false, false
		}
		bd := p.bounds[key]
		var vlo, vhi int64
		var hasLo, hasHi bool
		if bd != nil {
			vlo, vhi, hasLo, hasHi = bd.lo, bd.hi, bd.hasLo, bd.hasHi
		}
		if len(key) > 9 && key[:9] == "(str.len " && (!hasLo || vlo < 0) {
			vlo, hasLo = 0, true
		}
		if (hasLo && (vlo > 1<<40 || vlo < -(1<<40))) || (hasHi && (vhi > 1<<40 || vhi < -(1<<40))) {
			return 0, 0, false, false
		}
		if c > 0 {
			if hasLo {
				lo += c * vlo
			} else {
				okLo = false
			}
			if hasHi {
				hi += c * vhi
			} else {
				okHi = false
			}
		} else {
			if hasHi {
				lo += c * vhi
			} else {
				okLo = false
			}
			if hasLo {
				hi += c * vlo
			} else {
				okHi = false
			}
		}
	}
	return
}

// tri: is c valid (triTrue) or unsatisfiable (triFalse) over the box and the assumed facts?
func (p *pathCtx) tri(c *term) int {
	if noIntervals || p.facts == nil {
		return triUnknown
	}
	if c.isConst() {
		if c.b {
			return triTrue
		}
		return triFalse
	}
	if p.facts[c.String()] {
		return triTrue
	}
	switch c.op {
	case "not":
		return -p.tri(c.args[0])
	case "and":
		all := true
		for _, a := range c.args {
			switch p.tri(a) {
			case triFalse:
				return triFalse
			case triUnknown:
				all = false
			}
		}
		if all {
			return triTrue
		}
		return triUnknown
	case "or":
		none := true
		for _, a := range c.args {
			switch p.tri(a) {
			case triTrue:
				return triTrue
			case triUnknown:
				none = false
			}
		}
		if none {
			return triFalse
		}
		return triUnknown
	case "<=", "<", ">=", ">", "=":
		if len(c.args) != 2 || c.args[0].sort != sInt {
			return triUnknown
		}
		lo, hi, okLo, okHi := p.diffRange(c.args[0], c.args[1])
		switch c.op {
		case "<=":
			if okHi && hi <= 0 {
				return triTrue
			}
			if okLo && lo > 0 {
				return triFalse
			}
		case "<":
			if okHi && hi < 0 {
				return triTrue
			}
			if okLo && lo >= 0 {
				return triFalse
			}
		case ">=":
			if okLo && lo >= 0 {
				return triTrue
			}
			if okHi && hi < 0 {
				return triFalse
			}
		case ">":
			if okLo && lo > 0 {
				return triTrue
			}
			if okHi && hi <= 0 {
				return triFalse
			}
		case "=":
			if okLo && okHi && lo == 0 && hi == 0 {
				return triTrue
			}
			if (okLo && lo > 0) || (okHi && hi < 0) {
				return triFalse
			}
		}
	}
	return triUnknown
}

func (p *pathCtx) boundsString() string {
	s := ""
	for k, b := range p.bounds {
		s += fmt.Sprintf("%s:[%v %d,%v %d] ", k, b.hasLo, b.lo, b.hasHi, b.hi)
	}
	for k, t := range p.defs {
		s += fmt.Sprintf("%s:=%s ", k, t.String())
	}
	return s
}
