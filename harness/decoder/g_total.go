package decoder

import (
	"context"

	"github.com/hashicorp/hcl-lang/schema"
	"github.com/hashicorp/hcl/v2"
	"github.com/zclconf/go-cty/cty"
)

// C01 on a schema whose dependent bodies select each other: the body selected by `protocol`
// declares another key attribute (`mode`), the body selected by `mode` declares `protocol` as its
// key again. Valid (BodySchema.Validate accepts it) but unusual; every query must still return.
// A path that exhausts the interpreter's step budget becomes a candidate that is replayed
// natively under a deadline (DESIGN.md §6 C01).
func verifSchemaMutualKeys() *schema.BodySchema {
	str := schema.LiteralType{Type: cty.String}
	key := func(name, val string) schema.SchemaKey {
		return schema.NewSchemaKey(schema.DependencyKeys{Attributes: []schema.AttributeDependent{{Name: name, Expr: schema.ExpressionValue{Static: cty.StringVal(val)}}}})
	}
	return &schema.BodySchema{Blocks: map[string]*schema.BlockSchema{
		"listener": {
			Body: &schema.BodySchema{Attributes: map[string]*schema.AttributeSchema{"protocol": {Constraint: str, IsRequired: true, IsDepKey: true}}},
			DependentBody: map[schema.SchemaKey]*schema.BodySchema{
				key("protocol", "http"): {Attributes: map[string]*schema.AttributeSchema{
					"protocol": {Constraint: str, IsRequired: true},
					"mode":     {Constraint: str, IsOptional: true, IsDepKey: true},
					"port":     {Constraint: schema.LiteralType{Type: cty.Number}, IsOptional: true},
				}},
				key("mode", "strict"): {Attributes: map[string]*schema.AttributeSchema{
					"protocol": {Constraint: str, IsRequired: true, IsDepKey: true},
					"mode":     {Constraint: str, IsOptional: true},
					"cert":     {Constraint: str, IsOptional: true},
				}},
				key("mode", "loose"): {Attributes: map[string]*schema.AttributeSchema{
					"protocol": {Constraint: str, IsRequired: true},
					"mode":     {Constraint: str, IsOptional: true, IsDepKey: true},
				}},
			},
		},
	}}
}

func verifMutualKeySources() []string {
	return []string{
		"listener {\n  protocol = \"http\"\n}\n",
		"listener {\n  protocol = \"http\"\n  mo\n}\n",
		"listener {\n  protocol = \"http\"\n  mode = \"str\n}\n",
		"listener {\n  protocol = \"http\"\n  mode = \"strict\"\n  cert = \"x\"\n}\n",
		"listener {\n  protocol = \"http\"\n  mode = \"loose\"\n}\n",
		"listener {\n  mode = \"strict\"\n}\n",
	}
}

func VerifP_C01_Total_MutualKeys_N() int            { return len(verifMutualKeySources()) }
func VerifP_C01_Total_MutualKeys_Name(i int) string { return "state" + verifItoa(i) }
func VerifP_C01_Total_MutualKeys(i int) {
	if err := verifSchemaMutualKeys().Validate(); err != nil {
		panic(err)
	}
	f := verifStretch(verifMutualKeySources()[i], vf, 0, 1)
	d := verifDecoder(verifSchemaMutualKeys(), map[string]*hcl.File{vf: f})
	ctx := context.Background()
	pos := verifAnyPos(vf)
	_, _ = d.CompletionAtPos(ctx, vf, pos)
	_, _ = d.HoverAtPos(ctx, vf, pos)
	_, _ = d.SemanticTokensInFile(ctx, vf)
	_, _ = d.SymbolsInFile(vf)
	_, _ = d.ValidateFile(ctx, vf)
	_, _ = d.LinksInFile(vf)
	_, _ = d.CollectReferenceTargets()
	_, _ = d.CollectReferenceOrigins()
	verifReach("end")
}
