package decoder

import (
	"context"

	"github.com/hashicorp/hcl-lang/lang"
	"github.com/hashicorp/hcl-lang/schema"
	"github.com/hashicorp/hcl/v2"
	"github.com/hashicorp/hcl/v2/hclsyntax"
	"github.com/zclconf/go-cty/cty"
)

// C06 (K): limit and 'complete' flag of attrValueCompletionAtPos, where two sources - completion
// hooks and the expression's own candidates - share one limit. The limit is symbolic; the number of
// hooks, what each returns and the size of the expression's population come from menus.
func VerifH_C06_ValueCandidates_Limit() {
	m := verifInt("max", 1, 7)
	nh := verifChoice("nhooks", 3)
	h := []int{0, 1, 3}[verifChoice("hooksize", 3)]
	e := []int{1, 2, 5}[verifChoice("exprsize", 3)]
	one := schema.OneOf{}
	for i := 0; i < e; i++ {
		one = append(one, schema.LiteralValue{Value: cty.StringVal([]string{"va", "vb", "vc", "vd", "ve"}[i])})
	}
	as := &schema.AttributeSchema{Constraint: one, IsOptional: true}
	for i := 0; i < nh; i++ {
		as.CompletionHooks = append(as.CompletionHooks, lang.CompletionHook{Name: []string{"h0", "h1"}[i]})
	}
	bs := &schema.BodySchema{Attributes: map[string]*schema.AttributeSchema{"attr": as}}
	f := verifParseHCL("attr = \n", "body.tf")
	d := verifDecoder(bs, map[string]*hcl.File{"body.tf": f})
	hook := func(ctx context.Context, value cty.Value) ([]Candidate, error) {
		out := make([]Candidate, 0)
		for i := 0; i < h; i++ {
			out = append(out, Candidate{Label: []string{"x0", "x1", "x2"}[i], RawInsertText: "\"x\""})
		}
		return out, nil
	}
	d.decoderCtx.CompletionHooks["h0"] = hook
	d.decoderCtx.CompletionHooks["h1"] = hook
	d.maxCandidates = uint(m)
	pos := hcl.Pos{Line: 1, Column: 8, Byte: 7}
	cs, err := d.CompletionAtPos(context.Background(), "body.tf", pos)
	if err != nil {
		verifReach("end")
		return
	}
	verifAssert(len(cs.List) <= m, "C06:list-within-limit")
	if cs.IsComplete {
		verifAssert(nh == 0, "C06:complete-only-if-no-hook-may-add-more")
		verifAssert(len(cs.List) == e, "C06:complete-only-if-nothing-omitted")
	}
	if verifAnd(nh == 0, e <= m) {
		verifAssert(len(cs.List) == e, "C06:below-limit-nothing-omitted")
	}
	verifReach("end")
}

// verifLabelKeyMenu: dependent-body keys for the label kernel - labels only, labels + attribute
// with and without a labels-only companion, a prefix relation, a second label index.
func verifLabelKeyMenu() []schema.DependencyKeys {
	v2 := []schema.AttributeDependent{{Name: "prov", Expr: schema.ExpressionValue{Address: lang.Address{lang.RootStep{Name: "p"}, lang.AttrStep{Name: "v2"}}}}}
	static := []schema.AttributeDependent{{Name: "prov", Expr: schema.ExpressionValue{Static: cty.StringVal("v2")}}}
	return []schema.DependencyKeys{
		{Labels: []schema.LabelDependent{{Index: 0, Value: "aws"}}},
		{Labels: []schema.LabelDependent{{Index: 0, Value: "aws"}}, Attributes: v2},
		{Labels: []schema.LabelDependent{{Index: 0, Value: "azr"}}, Attributes: v2},
		{Labels: []schema.LabelDependent{{Index: 0, Value: "ab"}}},
		{Labels: []schema.LabelDependent{{Index: 0, Value: "abc"}, {Index: 1, Value: "aws"}}},
		{Labels: []schema.LabelDependent{{Index: 1, Value: "b"}}},
		{Labels: []schema.LabelDependent{{Index: 0, Value: "aws"}, {Index: 1, Value: "vpc"}}},
		{Labels: []schema.LabelDependent{{Index: 0, Value: "azr"}, {Index: 1, Value: "inst"}}},
		{Labels: []schema.LabelDependent{{Index: 0, Value: "gcp"}, {Index: 1, Value: "vpc"}}},
		{Labels: []schema.LabelDependent{{Index: 0, Value: "stat"}}, Attributes: static},
	}
}

// C07/C06 (K): label completion offers exactly the dependent-body label values of that label index
// with the typed prefix - whatever else the key holds - once each, sorted, within the limit.
// Instances: 0 varies which keys exist, 1 the prefix and the label index, 2 the limit.
func VerifP_C06C07_LabelCandidates_N() int { return 3 }
func VerifP_C06C07_LabelCandidates_Name(i int) string {
	return []string{"keys", "prefix", "limit"}[i]
}
func VerifP_C06C07_LabelCandidates(mode int) {
	menu := verifLabelKeyMenu()
	db := map[schema.SchemaKey]*schema.BodySchema{}
	present := make([]bool, len(menu))
	for i, k := range menu {
		present[i] = true
		if mode == 2 && len(k.Attributes) > 0 && len(k.Attributes[0].Expr.Address) == 0 {
			// the limit instance leaves the key with a literal attribute value out (known finding on it)
			present[i] = false
		}
		if mode == 0 {
			present[i] = verifChoice("key"+string(rune('0'+i)), 2) == 1
		}
		if present[i] {
			db[schema.NewSchemaKey(k)] = &schema.BodySchema{Detail: "d" + string(rune('0'+i))}
		}
	}
	idx := 0
	prefix := ""
	if mode == 1 {
		idx = verifChoice("idx", 2)
		prefix = []string{"", "a", "ab", "aws", "b", "x", "in"}[verifChoice("prefix", 7)]
	}
	if mode == 0 {
		prefix = []string{"", "a"}[verifChoice("prefix", 2)]
	}
	if mode == 2 {
		prefix = []string{"", "az", "b"}[verifChoice("prefix", 3)]
	}
	m := 100
	if mode == 2 {
		m = verifInt("max", 0, 5)
	}
	labels := []*schema.LabelSchema{{Name: "type", IsDepKey: true, Completable: true}, {Name: "name", IsDepKey: true, Completable: true}}
	bsch := &schema.BlockSchema{Labels: labels, Body: &schema.BodySchema{Attributes: map[string]*schema.AttributeSchema{
		"prov": {Constraint: schema.LiteralType{Type: cty.String}, IsOptional: true, IsDepKey: true}}}, DependentBody: db}
	bs := &schema.BodySchema{Blocks: map[string]*schema.BlockSchema{"res": bsch}}
	f := verifParseHCL("res \"\" \"\" {\n}\n", "body.tf")
	block := f.Body.(*hclsyntax.Body).Blocks[0]
	pf := &hcl.File{Bytes: []byte(prefix)}
	prefixRng := hcl.Range{Filename: "p.tf", Start: hcl.InitialPos, End: hcl.Pos{Line: 1, Column: 1 + len(prefix), Byte: len(prefix)}}
	d := verifDecoder(bs, map[string]*hcl.File{"body.tf": f, "p.tf": pf})
	d.maxCandidates = uint(m)
	verifFreeze(d.pathCtx)
	cs, err := d.labelCandidatesFromDependentSchema(idx, db, prefixRng, prefixRng, block, labels)
	verifNoWrites("C04:labelCandidates-writes", true)
	if err != nil {
		verifReach("end")
		return
	}
	values := []string{"aws", "azr", "ab", "abc", "b", "gcp", "inst", "vpc", "stat", "zzz"}
	total := 0
	expects := make([]bool, len(values))
	counts := make([]int, len(values))
	for q, v := range values {
		for i, k := range menu {
			if !present[i] {
				continue
			}
			for _, l := range k.Labels {
				if l.Index == idx && l.Value == v && hasPrefixSym(v, prefix) {
					expects[q] = true
				}
			}
		}
		if expects[q] {
			total++
		}
		for _, c := range cs.List {
			if c.Label == v {
				counts[q]++
			}
		}
	}
	if cs.IsComplete {
		// a matching label value missing from a list marked complete contradicts both the flag (C06)
		// and "exactly the dependent-body label values" (C07)
		for q, v := range values {
			verifAssert(!(expects[q] && counts[q] == 0), "C06/C07:list-marked-complete-leaves-out-no-matching-label["+v+"]")
		}
	}
	for q, v := range values {
		verifAssert(counts[q] <= 1, "C07:label-no-duplicates")
		if mode != 2 {
			verifAssert((counts[q] == 1) == expects[q], "C07:label-offered-iff-in-dependent-keys["+v+"]")
		} else if counts[q] == 1 {
			verifAssert(expects[q], "C07:label-offered-only-if-in-dependent-keys["+v+"]")
		}
	}
	for _, c := range cs.List {
		known := false
		for _, v := range values {
			if c.Label == v {
				known = true
			}
		}
		verifAssert(known, "C07:label-candidate-is-a-dependent-key-value")
	}
	for k := 1; k < len(cs.List); k++ {
		verifAssert(cs.List[k-1].Label <= cs.List[k].Label, "C07:labels-sorted")
	}
	verifAssert(len(cs.List) <= m, "C06:label-list-within-limit")
	if cs.IsComplete {
		verifAssert(len(cs.List) == total, "C06:label-complete-only-if-nothing-omitted")
	}
	if total <= m {
		verifAssert(len(cs.List) == total, "C07:labels-below-limit-all-offered")
	}
	verifReach("end")
}

// C14 (K): workspace symbols over three paths; which paths are unreadable is symbolic, the query
// comes from a menu. The result is exactly the matching top-level symbols of the readable paths,
// in path order, file-name order and source order.
func VerifH_C14_WorkspaceSymbols() {
	type item struct{ path, name string }
	srcs := map[string]map[string]string{
		// (the block header is written with two blanks: a symbol's name is built from type and labels, not copied from the text)
		"pa": {"a.tf": "alpha = 1\nres  \"aws\"  \"x\" {\n  inner = 1\n}\n", "b.tf": "beta = 2\n"},
		"pb": {"c.tf": "gamma = 3\nalphabet = 4\n"},
		"pc": {"d.tf": "mod \"alpha\" {\n}\n", "e.tf": "\n"},
		// the directory of pa once more, in another language
		"pa|vars": {"v.tfvars": "alpha_value = 1\n"},
	}
	// the top-level items as written, in file-name and source order
	written := map[string][]string{
		"pa":      {"alpha", "res \"aws\" \"x\"", "beta"},
		"pb":      {"gamma", "alphabet"},
		"pc":      {"mod \"alpha\""},
		"pa|vars": {"alpha_value"},
	}
	orderIdx := verifChoice("order", 3)
	order := [][]string{{"pa", "pa|vars", "pb", "pc"}, {"pb", "pa", "pc", "pa|vars"}, {"pc", "pa|vars", "pb", "pa"}}[orderIdx]
	r := &verifFaultyReader{order: order, ctxs: map[string]*PathContext{}, fail: map[string]bool{}}
	for _, p := range []string{"pa", "pb", "pc", "pa|vars"} {
		files := map[string]*hcl.File{}
		for name, src := range srcs[p] {
			files[name] = verifParseHCL(src, name)
		}
		r.ctxs[p] = &PathContext{Files: files}
		flag := "fail-" + p
		if p == "pa|vars" {
			flag = "fail-pa-vars"
		}
		r.fail[p] = verifBool(flag)
	}
	query := []string{"", "alpha", "a", "res", "zz", "\"aws\"", "res \"aws\"", "s\" \"x"}[verifChoice("query", 8)]
	d := NewDecoder(r)
	d.SetContext(NewDecoderContext())
	syms, err := d.Symbols(context.Background(), query)
	verifAssert(err == nil, "C14:workspace-query-does-not-fail-on-unreadable-path")
	var want []item
	for _, p := range order {
		if r.fail[p] {
			continue
		}
		for _, n := range written[p] {
			if query == "" || verifContains(n, query) {
				want = append(want, item{p, n})
			}
		}
	}
	verifAssert(len(syms) == len(want), "C14:workspace-symbols-exactly-the-matching-items-of-readable-paths")
	for i := range want {
		if i < len(syms) {
			verifAssert(syms[i].Name() == want[i].name, "C14:workspace-symbol-name-and-order")
			verifAssert(verifKeyOfPath(syms[i].Path()) == want[i].path, "C14:workspace-symbol-path")
		}
	}
	verifReach("end")
}
