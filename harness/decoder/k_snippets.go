package decoder

import (
	"strings"

	"github.com/hashicorp/hcl-lang/schema"
	"github.com/zclconf/go-cty/cty"
)

// C06(b) for the block-level snippet builders: tab stops are numbered
// consecutively from the first placeholder, each at most once, with an
// optional final ${0}.

func verifSnippetStops(snippet string) []int {
	var stops []int
	ps := verifPieces(snippet)
	for i, p := range ps {
		if p.IsNum {
			if i > 0 && strings.HasSuffix(ps[i-1].Lit, "${") {
				stops = append(stops, p.Num)
			}
			continue
		}
		lit := p.Lit
		for k := 0; k+2 < len(lit); k++ {
			if lit[k] == '$' && lit[k+1] == '{' && lit[k+2] >= '0' && lit[k+2] <= '9' {
				n := 0
				for j := k + 2; j < len(lit) && lit[j] >= '0' && lit[j] <= '9'; j++ {
					n = n*10 + int(lit[j]-'0')
				}
				stops = append(stops, n)
			}
		}
	}
	return stops
}

// verifCheckStops: every non-zero stop is >= first, all are distinct, and they are consecutive.
func verifCheckStops(stops []int, first int, tag string) {
	n := 0
	for a, s := range stops {
		if !verifIsSymbolic(s) && s == 0 {
			continue // final tab stop
		}
		n++
		verifAssert(s >= first, "C06:"+tag+"-tab-stop-not-before-first")
		for b := 0; b < a; b++ {
			verifAssert(stops[b] != s, "C06:"+tag+"-tab-stop-used-once")
		}
	}
	for _, s := range stops {
		if !verifIsSymbolic(s) && s == 0 {
			continue
		}
		verifAssert(s < first+n, "C06:"+tag+"-tab-stops-consecutive")
	}
}

func verifReqBodies() []*schema.BodySchema {
	str := schema.LiteralType{Type: cty.String}
	req := func(c schema.Constraint) *schema.AttributeSchema {
		return &schema.AttributeSchema{Constraint: c, IsRequired: true}
	}
	return []*schema.BodySchema{
		{Attributes: map[string]*schema.AttributeSchema{"a": req(str), "b": req(str)}},
		{Attributes: map[string]*schema.AttributeSchema{"a": req(schema.Map{Elem: str}), "b": req(str)}},
		{Attributes: map[string]*schema.AttributeSchema{"a": req(schema.List{Elem: str}), "b": req(schema.LiteralType{Type: cty.Number}), "c": verifOpt(str)}},
		{Attributes: map[string]*schema.AttributeSchema{"o": req(schema.Object{Attributes: schema.ObjectAttributes{"x": {Constraint: str, IsRequired: true}, "y": {Constraint: str, IsRequired: true}}}), "z": req(str)}},
		{Attributes: map[string]*schema.AttributeSchema{"a": req(str)},
			Blocks: map[string]*schema.BlockSchema{"blk": {MinItems: 1, Labels: []*schema.LabelSchema{{Name: "l1"}, {Name: "l2"}},
				Body: &schema.BodySchema{Attributes: map[string]*schema.AttributeSchema{"in": req(str)}}}}},
		{Blocks: map[string]*schema.BlockSchema{"one": {MinItems: 1, Body: &schema.BodySchema{Attributes: map[string]*schema.AttributeSchema{"p": req(str), "q": req(str)}}},
			"two": {MinItems: 1, Body: &schema.BodySchema{Attributes: map[string]*schema.AttributeSchema{"r": req(str)}}}}},
		{Attributes: map[string]*schema.AttributeSchema{"a": req(schema.LiteralType{Type: cty.Object(map[string]cty.Type{"k": cty.String, "l": cty.String})}), "b": req(str)}},
	}
}

func VerifP_C06_RequiredFieldsSnippet_N() int { return len(verifReqBodies()) }
func VerifP_C06_RequiredFieldsSnippet(i int) {
	bs := verifReqBodies()[i]
	p := verifInt("p", 1, 20)
	nl := verifChoice("labels", 3)
	labels := []*schema.LabelSchema{{Name: "type", IsDepKey: true}, {Name: "name"}, {Name: "extra"}}[:nl]
	s := generateRequiredFieldsSnippet("lbl", bs, labels, p, 0)
	verifCheckStops(verifSnippetStops(s), p, "required-fields")
	verifReach("end")
}

func VerifH_C06_SnippetForBlock() {
	nl := verifChoice("labels", 4)
	var labels []*schema.LabelSchema
	for k := 0; k < nl; k++ {
		labels = append(labels, &schema.LabelSchema{Name: []string{"a", "b", "c"}[k], IsDepKey: verifChoice("depkey", 2) == 1})
	}
	b := &schema.BlockSchema{Labels: labels, Body: schema.NewBodySchema()}
	s := snippetForBlock("blk", b, verifChoice("prefill", 2) == 1)
	verifCheckStops(verifSnippetStops(s), 1, "block-snippet")
	verifReach("end")
}
