package decoder

import (
	"context"

	"github.com/hashicorp/hcl-lang/schema"
	"github.com/hashicorp/hcl/v2"
	"github.com/zclconf/go-cty/cty"
)

// C15 (K): with the stock validators, the diagnostics of a file are exactly
// the violations present. The schema's flags and limits are symbolic; the
// configuration is generated from concrete counts. The specification counts
// the expected diagnostics per kind.

func verifB2I(b bool) int { return verifIteInt(b, 1, 0) }

func VerifP_C15_Validate_Exact_N() int { return 3 }
func VerifP_C15_Validate_Exact_Name(i int) string {
	return []string{"top-level-blocks", "nested-and-unknown", "top-level-labels"}[i]
}
func VerifP_C15_Validate_Exact(mode int) {
	minB := verifInt("min", 0, 3)
	maxB := verifInt("max", 0, 3)
	req := verifBool("req")
	depA := verifBool("depattr")
	depB := verifBool("depblock")
	// instances 0 and 2 are the top-level one with one of its two independent dimensions varied
	// (number of blocks and dynamic blocks / number of declared and written labels)
	varyLabels := mode == 2
	if mode == 2 {
		mode = 0
	}
	nLabels := 1
	if mode == 0 && varyLabels {
		nLabels = verifChoice("schemalabels", 3)
	}
	var labels []*schema.LabelSchema
	for k := 0; k < nLabels; k++ {
		labels = append(labels, &schema.LabelSchema{Name: "l"})
	}
	inner := &schema.BodySchema{Attributes: map[string]*schema.AttributeSchema{
		"a": {Constraint: schema.LiteralType{Type: cty.String}, IsRequired: req, IsOptional: !req, IsDeprecated: depA},
	}}
	hasDyn := mode == 0 && !varyLabels && verifChoice("hasdynamic", 2) == 1
	bs := &schema.BodySchema{
		Extensions: &schema.BodyExtensions{DynamicBlocks: true},
		Attributes: inner.Attributes,
		Blocks: map[string]*schema.BlockSchema{
			"b":   {Body: schema.NewBodySchema(), MinItems: uint64(minB), MaxItems: uint64(maxB), IsDeprecated: depB},
			"lbl": {Labels: labels, Body: inner},
		},
	}
	// configuration
	nb, written, hasLbl := 1, 1, true
	if mode == 0 && !varyLabels {
		nb = verifChoice("nblocks", 4)
	}
	if mode == 0 && varyLabels {
		written = verifChoice("writtenlabels", 4)
		hasLbl = verifChoice("haslbl", 2) == 1
	}
	hasA := verifChoice("hasa", 2) == 1
	src := ""
	if hasA {
		src += "a = \"x\"\n"
	}
	for k := 0; k < nb; k++ {
		src += "b {\n}\n"
	}
	if hasDyn {
		// a dynamic block of type "b" stands for any number of "b" blocks
		src += "dynamic \"b\" {\n  for_each = [ 1 ]\n  content {\n  }\n}\n"
	}
	innerHasA := false
	unknownAttrs, unknownBlocks := 0, 0
	if hasLbl {
		src += "lbl"
		for k := 0; k < written; k++ {
			src += " \"x\""
		}
		src += " {\n"
		if mode == 1 {
			innerHasA = verifChoice("innerhasa", 2) == 1
			if innerHasA {
				src += "  a = \"y\"\n"
			}
			if verifChoice("innerunknown", 2) == 1 {
				src += "  zzz = 1\n"
				unknownAttrs++
			}
		}
		src += "}\n"
	}
	if mode == 1 {
		if verifChoice("unknownattr", 2) == 1 {
			src += "qqq = 1\n"
			unknownAttrs++
		}
		if verifChoice("unknownblock", 2) == 1 {
			// items inside a block without schema are not judged (lenient reading, DESIGN §6 C15)
			src += "www {\n  inside = 1\n}\n"
			unknownBlocks++
		}
	}
	// the body under test is the body of a block: body extensions (dynamic blocks) apply to block bodies
	top := &schema.BodySchema{Blocks: map[string]*schema.BlockSchema{"wrap": {Body: bs}}}
	f := verifParseHCL("wrap {\n"+src+"}\n", vf)
	pc := &PathContext{Schema: top, Files: map[string]*hcl.File{vf: f}, Validators: verifValidators()}
	d := verifDecoderFromCtx(pc)
	verifFreeze(pc)
	diags, err := d.ValidateFile(context.Background(), vf)
	verifAssert(err == nil, "C15:validate-no-error")

	verifAssert(verifCountDiags(diags, "Too many blocks") == verifB2I(verifAnd(maxB != 0, nb > maxB)), "C15:too-many-blocks-exact")
	verifAssert(verifCountDiags(diags, "Too few blocks") == verifB2I(verifAnd(verifAnd(minB != 0, nb < minB), !hasDyn)), "C15:too-few-blocks-exact")
	missing := verifB2I(verifAnd(req, !hasA))
	if hasLbl {
		missing += verifB2I(verifAnd(req, !innerHasA))
	}
	verifAssert(verifCountDiags(diags, "Required attribute") == missing, "C15:required-attribute-exact")
	depCount := 0
	if hasA {
		depCount += verifB2I(depA)
	}
	if innerHasA {
		depCount += verifB2I(depA)
	}
	depCount += nb * verifB2I(depB)
	verifAssert(verifCountDiags(diags, "\"") == depCount, "C15:deprecation-warnings-exact")
	surplus, missingLabels := 0, 0
	if hasLbl {
		if written > nLabels {
			surplus = written - nLabels
		}
		if written < nLabels {
			missingLabels = 1
		}
	}
	verifAssert(verifCountDiags(diags, "Too many labels") == surplus, "C15:surplus-labels-exact")
	verifAssert(verifCountDiags(diags, "Not enough labels") == missingLabels, "C15:missing-labels-exact")
	verifAssert(verifCountDiags(diags, "Unexpected attribute") == unknownAttrs, "C15:unexpected-attribute-exact")
	verifAssert(verifCountDiags(diags, "Unexpected block") == unknownBlocks, "C15:unexpected-block-exact")
	for _, dg := range diags {
		verifAssert(dg.Subject != nil, "C15:diagnostic-has-subject")
	}
	verifNoWrites("C04:validate-writes", true)
	verifReach("end")
}
