package decoder

import (
	"context"

	"github.com/hashicorp/hcl-lang/decoder/internal/schemahelper"
	"github.com/hashicorp/hcl-lang/lang"
	"github.com/hashicorp/hcl-lang/schema"
	"github.com/hashicorp/hcl/v2"
	"github.com/hashicorp/hcl/v2/hclsyntax"
)

const vf = "test.tf"

// verifSeedDecoder: a real Decoder/PathDecoder over the stretched seed.
var _ = verifSeedDecoder

func verifSeedDecoder(i int) (*PathDecoder, verifSeed) {
	s := verifSeedList()[i]
	D := verifBound("D", 2, 6)
	f := verifStretch(s.src, vf, D, 0)
	pc := &PathContext{
		Schema:           verifSchemas(s.schema),
		Files:            map[string]*hcl.File{vf: f},
		Functions:        verifFunctions(),
		ReferenceTargets: verifTargets(),
		Validators:       verifValidators(),
	}
	d := NewDecoder(&verifPathReader{paths: map[string]*PathContext{"dir": pc}})
	d.SetContext(NewDecoderContext())
	pd, err := d.Path(lang.Path{Path: "dir"})
	if err != nil {
		panic(err)
	}
	// as a language server does: collect the origins of the path once and keep them in the context
	if origins, err := pd.CollectReferenceOrigins(); err == nil {
		pc.ReferenceOrigins = origins
	}
	return pd, s
}

func VerifP_C01C02C04C05C12_Hover_N() int { return len(verifSeedList()) }
func VerifP_C01C02C04C05C12_Hover_Name(i int) string { return verifSeedList()[i].name }
func VerifP_C01C02C04C05C12_Hover(i int) {
	d, _ := verifSeedDecoder(i)
	pos := verifAnyPos(vf)
	verifFreeze(d.pathCtx)
	verifQuery(func() {
		hd, err := d.HoverAtPos(context.Background(), vf, pos)
		if err == nil && hd != nil {
			verifAssert(hd.Content.Value != "", "C12:content-nonempty")
			verifAssert(verifRealRange(vf, hd.Range), "C02:hover-range"+verifCursorTag())
			verifAssert(verifAnd(hd.Range.Start.Byte <= pos.Byte, pos.Byte <= hd.Range.End.Byte), "C12:range-contains-cursor"+verifCursorTag())
			verifAssert(verifOr(pos.Byte < hd.Range.End.Byte, hd.Range.Start.Byte == hd.Range.End.Byte), "C12:range-contains-cursor-half-open"+verifCursorTag())
		}
	})
	verifNoWrites("C04:hover-writes", true)
	verifNoWrites("C05:hover-writes", false)
	verifReach("end")
}

func VerifP_C01C02C04C05C06_Completion_N() int { return len(verifSeedList()) }
func VerifP_C01C02C04C05C06_Completion_Name(i int) string { return verifSeedList()[i].name }
func VerifP_C01C02C04C05C06_Completion(i int) {
	d, _ := verifSeedDecoder(i)
	pos := verifAnyPos(vf)
	verifFreeze(d.pathCtx)
	verifQuery(func() {
		cs, err := d.CompletionAtPos(context.Background(), vf, pos)
		if err == nil {
			gCheckCandidates(cs, pos)
		}
	})
	verifNoWrites("C04:completion-writes", true)
	verifNoWrites("C05:completion-writes", false)
	verifReach("end")
}

// verifStructuralTokens: the oracle for attribute-name, block-type and label
// tokens, computed from the (stretched) syntax tree and the effective schema.
func verifStructuralTokens(body *hclsyntax.Body, bs *schema.BodySchema, parent lang.SemanticTokenModifiers) []lang.SemanticToken {
	var out []lang.SemanticToken
	if bs == nil {
		return out
	}
	join := func(a lang.SemanticTokenModifiers, more ...lang.SemanticTokenModifiers) lang.SemanticTokenModifiers {
		r := lang.SemanticTokenModifiers{}
		r = append(r, a...)
		for _, m := range more {
			r = append(r, m...)
		}
		return r
	}
	for name, attr := range body.Attributes {
		as, ok := bs.Attributes[name]
		if !ok {
			if bs.Extensions != nil && bs.Extensions.Count && name == "count" {
				as = schemahelper.CountAttributeSchema()
			} else if bs.Extensions != nil && bs.Extensions.ForEach && name == "for_each" {
				as = schemahelper.ForEachAttributeSchema()
			} else if bs.AnyAttribute != nil {
				as = bs.AnyAttribute
			} else {
				continue
			}
		}
		out = append(out, lang.SemanticToken{Type: lang.TokenAttrName, Modifiers: join(parent, as.SemanticTokenModifiers), Range: attr.NameRange})
	}
	for _, block := range body.Blocks {
		bsch, ok := bs.Blocks[block.Type]
		if !ok {
			continue
		}
		bm := join(parent, bsch.SemanticTokenModifiers)
		out = append(out, lang.SemanticToken{Type: lang.TokenBlockType, Modifiers: bm, Range: block.TypeRange})
		for i, lr := range block.LabelRanges {
			if i < len(bsch.Labels) {
				out = append(out, lang.SemanticToken{Type: lang.TokenBlockLabel, Modifiers: join(bm, bsch.Labels[i].SemanticTokenModifiers), Range: lr})
			}
		}
		if block.Body != nil {
			merged, _ := schemahelper.MergeBlockBodySchemas(block.AsHCLBlock(), bsch)
			out = append(out, verifStructuralTokens(block.Body, merged, bm)...)
		}
	}
	return out
}

func verifAllExprRanges(body *hclsyntax.Body) []hcl.Range {
	var out []hcl.Range
	for _, a := range body.Attributes {
		out = append(out, a.Expr.Range())
	}
	for _, b := range body.Blocks {
		if b.Body != nil {
			out = append(out, verifAllExprRanges(b.Body)...)
		}
	}
	return out
}

func verifSameModifiers(a, b lang.SemanticTokenModifiers) bool {
	if len(a) != len(b) {
		return false
	}
	for i := range a {
		if a[i] != b[i] {
			return false
		}
	}
	return true
}

func VerifP_C01C02C04C05C13_SemTok_N() int { return len(verifSeedList()) }
func VerifP_C01C02C04C05C13_SemTok_Name(i int) string { return verifSeedList()[i].name }
func VerifP_C01C02C04C05C13_SemTok(i int) {
	d, _ := verifSeedDecoder(i)
	verifFreeze(d.pathCtx)
	verifQuery(func() {
		toks, err := d.SemanticTokensInFile(context.Background(), vf)
		if err == nil {
			for k, t := range toks {
				verifAssert(verifRealRange(vf, t.Range), "C02:token-range")
				verifAssert(t.Range.Start.Byte < t.Range.End.Byte, "C13:token-nonempty")
				if k > 0 {
					verifAssert(toks[k-1].Range.End.Byte <= t.Range.Start.Byte, "C13:tokens-ordered-disjoint")
				}
				known := false
				for _, st := range lang.SupportedSemanticTokenTypes {
					if st == t.Type {
						known = true
					}
				}
				verifAssert(known, "C13:token-type-advertised")
			}
			// exactness of the structural tokens against the oracle
			body := d.pathCtx.Files[vf].Body.(*hclsyntax.Body)
			want := verifStructuralTokens(body, d.pathCtx.Schema, lang.SemanticTokenModifiers{})
			exprs := verifAllExprRanges(body)
			for _, t := range toks {
				if t.Type == lang.TokenAttrName || t.Type == lang.TokenBlockType || t.Type == lang.TokenBlockLabel {
					// either one of the schema-known structural elements, or part of a value (type declarations mark object attribute names)
					ok := false
					for _, w := range want {
						if w.Type == t.Type {
							ok = verifOr(ok, verifAnd(t.Range.Start.Byte == w.Range.Start.Byte, t.Range.End.Byte == w.Range.End.Byte))
						}
					}
					for _, e := range exprs {
						ok = verifOr(ok, verifAnd(e.Start.Byte <= t.Range.Start.Byte, t.Range.End.Byte <= e.End.Byte))
					}
					verifAssert(ok, "C13:no-structural-token-for-unknown-elements")
				}
			}
			for _, w := range want {
				found := false
				for _, t := range toks {
					if t.Type == w.Type && verifSameModifiers(t.Modifiers, w.Modifiers) {
						found = verifOr(found, verifAnd(t.Range.Start.Byte == w.Range.Start.Byte, t.Range.End.Byte == w.Range.End.Byte))
					}
				}
				verifAssert(found, "C13:structural-token-with-inherited-modifiers-present")
			}
		}
	})
	verifNoWrites("C04:semtok-writes", true)
	verifNoWrites("C05:semtok-writes", false)
	verifReach("end")
}

func verifCheckSymbols(syms []Symbol, parent *hcl.Range) {
	for _, s := range syms {
		r := s.Range()
		verifAssert(verifRealRange(vf, r), "C02:symbol-range")
		if parent != nil {
			verifAssert(verifAnd(parent.Start.Byte <= r.Start.Byte, r.End.Byte <= parent.End.Byte), "C14:child-inside-parent")
		}
		verifAssert(s.Name() != "", "C14:symbol-name-nonempty")
		verifCheckSymbols(s.NestedSymbols(), &r)
	}
}

func VerifP_C01C02C04C05C14_Symbols_N() int { return len(verifSeedList()) }
func VerifP_C01C02C04C05C14_Symbols_Name(i int) string { return verifSeedList()[i].name }
func VerifP_C01C02C04C05C14_Symbols(i int) {
	d, _ := verifSeedDecoder(i)
	verifFreeze(d.pathCtx)
	verifQuery(func() {
		syms, err := d.SymbolsInFile(vf)
		if err == nil {
			verifCheckSymbols(syms, nil)
			for k := 1; k < len(syms); k++ {
				verifAssert(syms[k-1].Range().Start.Byte <= syms[k].Range().Start.Byte, "C14:source-order")
			}
		}
	})
	verifNoWrites("C04:symbols-writes", true)
	verifNoWrites("C05:symbols-writes", false)
	verifReach("end")
}

func VerifP_C01C02C04C05C15_Validate_N() int { return len(verifSeedList()) }
func VerifP_C01C02C04C05C15_Validate_Name(i int) string { return verifSeedList()[i].name }
func VerifP_C01C02C04C05C15_Validate(i int) {
	d, _ := verifSeedDecoder(i)
	verifFreeze(d.pathCtx)
	verifQuery(func() {
		diags, err := d.ValidateFile(context.Background(), vf)
		if err == nil {
			for _, dg := range diags {
				if dg.Subject != nil {
					verifAssert(verifRealRange(vf, *dg.Subject), "C02:diagnostic-subject")
				}
			}
		}
	})
	verifNoWrites("C04:validate-writes", true)
	verifNoWrites("C05:validate-writes", false)
	verifReach("end")
}

func VerifP_C01C02C04C05C09_Targets_N() int { return len(verifSeedList()) }
func VerifP_C01C02C04C05C09_Targets_Name(i int) string { return verifSeedList()[i].name }
func VerifP_C01C02C04C05C09_Targets(i int) {
	d, _ := verifSeedDecoder(i)
	verifFreeze(d.pathCtx)
	verifQuery(func() {
		ts, err := d.CollectReferenceTargets()
		if err == nil {
			for _, t := range ts {
				if t.RangePtr != nil {
					verifAssert(verifRealRange(vf, *t.RangePtr), "C02:target-range")
				}
				if t.DefRangePtr != nil {
					verifAssert(verifRealRange(vf, *t.DefRangePtr), "C02:target-defrange")
				}
			}
		}
	})
	verifNoWrites("C04:targets-writes", true)
	verifNoWrites("C05:targets-writes", false)
	verifReach("end")
}

func VerifP_C01C02C04C05C10_Origins_N() int { return len(verifSeedList()) }
func VerifP_C01C02C04C05C10_Origins_Name(i int) string { return verifSeedList()[i].name }
func VerifP_C01C02C04C05C10_Origins(i int) {
	d, _ := verifSeedDecoder(i)
	verifFreeze(d.pathCtx)
	verifQuery(func() {
		os, err := d.CollectReferenceOrigins()
		if err == nil {
			for k, o := range os {
				verifAssert(verifRealRange(vf, o.OriginRange()), "C02:origin-range")
				if k > 0 {
					verifAssert(os[k-1].OriginRange().Start.Byte <= o.OriginRange().Start.Byte, "C10:origins-ordered")
				}
			}
		}
	})
	verifNoWrites("C04:origins-writes", true)
	verifNoWrites("C05:origins-writes", false)
	verifReach("end")
}

func VerifP_C01C02C04C05C20_Signature_N() int { return len(verifSeedList()) }
func VerifP_C01C02C04C05C20_Signature_Name(i int) string { return verifSeedList()[i].name }
func VerifP_C01C02C04C05C20_Signature(i int) {
	d, _ := verifSeedDecoder(i)
	pos := verifAnyPos(vf)
	verifFreeze(d.pathCtx)
	verifQuery(func() {
		sig, err := d.SignatureAtPos(vf, pos)
		if err == nil && sig != nil {
			verifAssert(int(sig.ActiveParameter) < len(sig.Parameters) || len(sig.Parameters) == 0, "C20:active-parameter-valid")
		}
	})
	verifNoWrites("C04:signature-writes", true)
	verifNoWrites("C05:signature-writes", false)
	verifReach("end")
}

func VerifP_C01C02C04C05C16_Links_N() int { return len(verifSeedList()) }
func VerifP_C01C02C04C05C16_Links_Name(i int) string { return verifSeedList()[i].name }
func VerifP_C01C02C04C05C16_Links(i int) {
	d, _ := verifSeedDecoder(i)
	verifFreeze(d.pathCtx)
	verifQuery(func() {
		links, err := d.LinksInFile(vf)
		if err == nil {
			for _, l := range links {
				verifAssert(verifRealRange(vf, l.Range), "C02:link-range")
			}
		}
	})
	verifNoWrites("C04:links-writes", true)
	verifNoWrites("C05:links-writes", false)
	verifReach("end")
}
