package decoder

import (
	"context"
	"strings"

	"github.com/hashicorp/hcl-lang/decoder/internal/schemahelper"
	"github.com/hashicorp/hcl-lang/lang"
	"github.com/hashicorp/hcl-lang/reference"
	"github.com/hashicorp/hcl-lang/schema"
	"github.com/hashicorp/hcl/v2"
	"github.com/hashicorp/hcl/v2/ext/typeexpr"
	"github.com/hashicorp/hcl/v2/hclsyntax"
	"github.com/zclconf/go-cty/cty"
	"github.com/zclconf/go-cty/cty/convert"
)

const vf = "test.tf"

// verifSeedDecoder: a real Decoder/PathDecoder over the stretched seed.
var _ = verifSeedDecoder

// verifSeedDecoderFresh: the decoder of seed i on a freshly built schema and context; no query has run yet.
func verifSeedDecoderFresh(i int) (*PathDecoder, *PathContext, verifSeed) {
	s := verifSeedList()[i]
	D := verifBound("D", 2, 6)
	f := verifStretch(s.src, vf, D, 0)
	pc := &PathContext{
		Schema:           verifSchemas(s.schema),
		Files:            map[string]*hcl.File{vf: f},
		Functions:        verifFunctions(),
		ReferenceTargets: verifTargets(),
		Validators:       verifValidators(),
	}
	d := NewDecoder(&verifPathReader{paths: map[string]*PathContext{"dir": pc}})
	dctx := NewDecoderContext()
	// as a language server does: links carry campaign parameters (the URL handed out differs from the schema's)
	dctx.UtmSource, dctx.UtmMedium, dctx.UseUtmContent = "verif", "ls", true
	dctx.CompletionHooks["verifhook"] = func(ctx context.Context, value cty.Value) ([]Candidate, error) {
		return []Candidate{{Label: "hook-one", RawInsertText: "\"one\""}, {Label: "hook-two", RawInsertText: "\"two\""}}, nil
	}
	d.SetContext(dctx)
	pd, err := d.Path(lang.Path{Path: "dir"})
	if err != nil {
		panic(err)
	}
	return pd, pc, s
}

func verifSeedDecoder(i int) (*PathDecoder, verifSeed) {
	pd, pc, s := verifSeedDecoderFresh(i)
	// as a language server does: collect the targets and origins of the path once and keep them in
	// the context (the collections themselves are watched by the targets and origins drivers, which
	// run them first thing on a fresh schema)
	ts, terr := pd.CollectReferenceTargets()
	origins, oerr := pd.CollectReferenceOrigins()
	if terr == nil {
		// kept in a slice with spare capacity, as slices grown by append have
		all := make(reference.Targets, 0, 64)
		all = append(all, pc.ReferenceTargets...)
		pc.ReferenceTargets = append(all, ts...)
	}
	if oerr == nil {
		pc.ReferenceOrigins = origins
	}
	return pd, s
}

// C11/C04 (G): the Decoder-level lookups on a path whose context holds the targets and origins the
// real collectors produced for the seed (as a language server keeps them), at any cursor position.
func VerifP_C01C02C03C04C05C11_Lookups_N() int            { return len(verifSeedList()) }
func VerifP_C01C02C03C04C05C11_Lookups_Name(i int) string { return verifSeedList()[i].name }
func VerifP_C01C02C03C04C05C11_Lookups(i int) {
	s := verifSeedList()[i]
	D := verifBound("D", 2, 6)
	f := verifStretch(s.src, vf, D, 0)
	pc := &PathContext{
		Schema:           verifSchemas(s.schema),
		Files:            map[string]*hcl.File{vf: f},
		Functions:        verifFunctions(),
		ReferenceTargets: verifTargets(),
	}
	dd := NewDecoder(&verifPathReader{paths: map[string]*PathContext{"dir": pc}})
	dd.SetContext(NewDecoderContext())
	path := lang.Path{Path: "dir"}
	pd, err := dd.Path(path)
	if err != nil {
		panic(err)
	}
	if ts, err := pd.CollectReferenceTargets(); err == nil {
		// (kept in a slice with spare capacity, as slices grown by append have: a query that
		// appends to it - or to a sub-slice of it - writes into memory other queries share)
		all := make(reference.Targets, 0, 64)
		all = append(all, pc.ReferenceTargets...)
		pc.ReferenceTargets = append(all, ts...)
	}
	if origins, err := pd.CollectReferenceOrigins(); err == nil {
		pc.ReferenceOrigins = origins
	}
	pos := verifAnyPos(vf)
	at := verifCursorTag()
	verifFreeze(pc)
	verifQuery(func() {
		ts, err := dd.ReferenceTargetsForOriginAtPos(path, vf, pos)
		if err == nil {
			for _, t := range ts {
				verifAssert(verifRealRange(vf, t.OriginRange), "C02:lookup-origin-range"+at)
				verifAssert(verifAnd(t.OriginRange.Start.Byte <= pos.Byte, pos.Byte <= t.OriginRange.End.Byte), "C11:definition-lookup-origin-contains-cursor"+at)
				if t.Range.Filename == vf {
					verifAssert(verifRealRange(vf, t.Range), "C02:lookup-target-range"+at)
					if t.DefRangePtr != nil {
						verifAssert(verifRealRange(vf, *t.DefRangePtr), "C02:lookup-target-def-range"+at)
					}
				}
				// the inverse view: find-references asked at the reported definition reports this origin
				where := t.Range.Start
				if t.DefRangePtr != nil {
					where = t.DefRangePtr.Start
				}
				back := dd.ReferenceOriginsTargetingPos(t.Path, t.Range.Filename, where)
				n := 0
				for _, o := range back {
					if verifSameRange(o.Range, t.OriginRange) {
						n++
					}
				}
				verifAssert(n >= 1, "C11:find-references-at-reported-definition-reports-the-origin"+at)
			}
		}
		os := dd.ReferenceOriginsTargetingPos(path, vf, pos)
		// history independence: the same two lookups, asked again after each other, say the same
		ts2, err2 := dd.ReferenceTargetsForOriginAtPos(path, vf, pos)
		verifAssert((err == nil) == (err2 == nil), "C03:definition-lookup-repeatable-after-find-references"+at)
		if err == nil && err2 == nil {
			verifAssert(len(ts) == len(ts2), "C03:definition-lookup-repeatable-after-find-references"+at)
			for k := range ts {
				if k < len(ts2) {
					verifAssert(verifSameRange(ts[k].Range, ts2[k].Range) && ts[k].Range.Filename == ts2[k].Range.Filename, "C03:definition-lookup-repeatable-after-find-references"+at)
				}
			}
		}
		os2 := dd.ReferenceOriginsTargetingPos(path, vf, pos)
		verifAssert(len(os) == len(os2), "C03:find-references-repeatable"+at)
		for k, o := range os {
			verifAssert(verifRealRange(vf, o.Range), "C02:lookup-origins-range"+at)
			if k > 0 {
				verifAssert(os[k-1].Range.Start.Byte <= o.Range.Start.Byte, "C03:lookup-origins-ordered"+at)
			}
		}
	})
	verifNoWrites("C04:lookup-writes", true)
	verifNoWrites("C05:lookup-writes", false)
	verifReach("end")
}

func VerifP_C01C02C04C05C12_Hover_N() int            { return len(verifSeedList()) }
func VerifP_C01C02C04C05C12_Hover_Name(i int) string { return verifSeedList()[i].name }
func VerifP_C01C02C04C05C12_Hover(i int) {
	d, seed := verifSeedDecoder(i)
	pos := verifAnyPos(vf)
	verifFreeze(d.pathCtx)
	verifQuery(func() {
		hd, err := d.HoverAtPos(context.Background(), vf, pos)
		if err == nil && hd != nil {
			verifAssert(hd.Content.Value != "", "C12:content-nonempty")
			verifAssert(verifRealRange(vf, hd.Range), "C02:hover-range"+verifCursorTag())
			verifAssert(verifAnd(hd.Range.Start.Byte <= pos.Byte, pos.Byte <= hd.Range.End.Byte), "C12:range-contains-cursor"+verifCursorTag())
			verifAssert(verifOr(pos.Byte < hd.Range.End.Byte, hd.Range.Start.Byte == hd.Range.End.Byte), "C12:range-contains-cursor-half-open"+verifCursorTag())
		}
		if err == nil {
			body := d.pathCtx.Files[vf].Body.(*hclsyntax.Body)
			// (the oracle reads a schema of its own: what earlier queries may have done to the decoder's is not trusted)
			verifCheckHoverElement(body, verifSchemas(seed.schema), pos, hd)
		}
	})
	verifNoWrites("C04:hover-writes", true)
	verifNoWrites("C05:hover-writes", false)
	verifReach("end")
}

func verifIn(r hcl.Range, pos hcl.Pos) bool {
	return verifAnd(r.Start.Byte <= pos.Byte, pos.Byte < r.End.Byte)
}

func verifSameRange(a, b hcl.Range) bool {
	return verifAnd(verifAnd(a.Start.Byte == b.Start.Byte, a.End.Byte == b.End.Byte),
		verifAnd(verifAnd(a.Start.Line == b.Start.Line, a.Start.Column == b.Start.Column), verifAnd(a.End.Line == b.End.Line, a.End.Column == b.End.Column)))
}

// verifCheckHoverElement: on an attribute name, block type or label of a schema-known element the
// hover names that element, carries the description of the effective schema and has the whole
// attribute, the type keyword or the label as range; inside a value the range stays inside the value.
func verifCheckHoverElement(body *hclsyntax.Body, bs *schema.BodySchema, pos hcl.Pos, hd *lang.HoverData) {
	if bs == nil {
		return
	}
	at := verifCursorTag()
	for name, attr := range body.Attributes {
		as, ok := bs.Attributes[name]
		if !ok {
			if bs.Extensions != nil && bs.Extensions.Count && name == "count" {
				as = schemahelper.CountAttributeSchema()
			} else if bs.Extensions != nil && bs.Extensions.ForEach && name == "for_each" {
				as = schemahelper.ForEachAttributeSchema()
			} else if bs.AnyAttribute != nil {
				as = bs.AnyAttribute
			} else {
				// an attribute the effective schema does not know: nothing known is at its name
				if verifIn(attr.NameRange, pos) {
					verifAssert(hd == nil, "C12:no-hover-for-an-attribute-the-effective-schema-does-not-know"+at)
					return
				}
				continue
			}
		}
		if verifIn(attr.NameRange, pos) {
			verifAssert(hd != nil, "C12:known-attribute-name-has-hover"+at)
			if hd != nil {
				verifAssert(verifSameRange(hd.Range, attr.Range()), "C12:attribute-hover-range-is-whole-attribute"+at)
				verifAssert(strings.Contains(hd.Content.Value, "**"+name+"**"), "C12:attribute-hover-names-the-attribute"+at)
				if as.Description.Value != "" {
					verifAssert(strings.Contains(hd.Content.Value, as.Description.Value), "C12:attribute-hover-carries-schema-description"+at)
				}
			}
			return
		}
		if verifIn(attr.Expr.Range(), pos) {
			if hd != nil {
				verifAssert(verifAnd(attr.Expr.Range().Start.Byte <= hd.Range.Start.Byte, hd.Range.End.Byte <= attr.Expr.Range().End.Byte), "C12:value-hover-range-inside-the-value"+at)
				// an object item: a hover that names an attribute of the object names the one written
				// as this item's key, and one that spans only the item's value is not typed by a sibling
				if oc, isObj := as.Constraint.(schema.Object); isObj {
					if oe, isCons := attr.Expr.(*hclsyntax.ObjectConsExpr); isCons {
						for _, it := range oe.Items {
							if !verifAnd(it.KeyExpr.Range().Start.Byte <= pos.Byte, pos.Byte <= it.ValueExpr.Range().End.Byte) {
								continue
							}
							key, raw := verifWrittenKey(it.KeyExpr)
							for n, oa := range oc.Attributes {
								if strings.HasPrefix(hd.Content.Value, "**"+n+"**") {
									verifAssert(raw && key == n, "C12:object-item-hover-names-the-item-under-the-cursor"+at)
								}
								if !raw || key != n {
									if lt, isLit := oa.Constraint.(schema.LiteralType); isLit && verifSameRange(hd.Range, it.ValueExpr.Range()) {
										if lv, isVal := it.ValueExpr.(*hclsyntax.LiteralValueExpr); isVal && !lv.Val.Type().Equals(lt.Type) {
											verifAssert(hd.Content.Value != "_"+lt.Type.FriendlyName()+"_", "C12:object-item-value-not-described-by-a-sibling's-type"+at)
										}
									}
								}
							}
						}
					}
				}
			}
			return
		}
	}
	for _, block := range body.Blocks {
		bsch, ok := bs.Blocks[block.Type]
		if !ok {
			continue
		}
		if verifIn(block.TypeRange, pos) {
			verifAssert(hd != nil, "C12:known-block-type-has-hover"+at)
			if hd != nil {
				verifAssert(verifSameRange(hd.Range, block.TypeRange), "C12:block-hover-range-is-type-keyword"+at)
				verifAssert(strings.Contains(hd.Content.Value, "**"+block.Type+"**"), "C12:block-hover-names-the-block"+at)
			}
			return
		}
		for i, lr := range block.LabelRanges {
			if i < len(bsch.Labels) && verifIn(lr, pos) {
				verifAssert(hd != nil, "C12:known-label-has-hover"+at)
				if hd != nil {
					verifAssert(verifSameRange(hd.Range, lr), "C12:label-hover-range-is-the-label"+at)
					verifAssert(strings.Contains(hd.Content.Value, block.Labels[i]), "C12:label-hover-names-the-label"+at)
					if es := verifDepEntriesOf(block.Type); es != nil && bsch.Labels[i].IsDepKey {
						if db := verifSpecDependentBody(block, bsch, es); db != nil {
							if db.Detail != "" {
								verifAssert(strings.Contains(hd.Content.Value, db.Detail), "C12:label-hover-carries-effective-body-detail"+at)
							}
							if db.Description.Value != "" {
								verifAssert(strings.Contains(hd.Content.Value, db.Description.Value), "C12:label-hover-carries-effective-body-description"+at)
							}
						}
					}
				}
				return
			}
		}
		if block.Body != nil && verifIn(block.Body.Range(), pos) {
			merged, _ := schemahelper.MergeBlockBodySchemas(block.AsHCLBlock(), bsch)
			verifCheckHoverElement(block.Body, merged, pos, hd)
			return
		}
	}
}

// verifSpecKey: one key/value pair of a block's dependency keys; rng is where it is written
// (nil for a value that comes from the attribute's default).
type verifSpecKey struct {
	k, v string
	rng  *hcl.Range
}

// verifSpecKeys: the dependency keys a block presents to a body schema, re-stated from the
// documentation: the values of the labels marked as keys plus, for every attribute the body marks
// as key, the written value (reference address or literal) or else its default value.
func verifSpecKeys(block *hclsyntax.Block, labels []*schema.LabelSchema, body *schema.BodySchema) ([]verifSpecKey, bool) {
	var want []verifSpecKey
	for i, l := range labels {
		if l.IsDepKey {
			if i >= len(block.Labels) {
				break
			}
			r := block.LabelRanges[i]
			want = append(want, verifSpecKey{"label" + string(rune('0'+i)), block.Labels[i], &r})
		}
	}
	if body != nil && block.Body != nil {
		for _, name := range body.AttributeNames() {
			asch := body.Attributes[name]
			if !asch.IsDepKey {
				continue
			}
			attr, ok := block.Body.Attributes[name]
			if !ok {
				if dv, isDefault := asch.DefaultValue.(schema.DefaultValue); isDefault {
					if s, ok := verifStaticKey(dv.Value); ok {
						want = append(want, verifSpecKey{"attr:" + name, "static:" + s, nil})
					}
				}
				continue
			}
			r := attr.Expr.Range()
			if st, ok := attr.Expr.(*hclsyntax.ScopeTraversalExpr); ok {
				s := ""
				for _, step := range st.Traversal {
					switch x := step.(type) {
					case hcl.TraverseRoot:
						s += x.Name
					case hcl.TraverseAttr:
						s += "." + x.Name
					default:
						return nil, false
					}
				}
				want = append(want, verifSpecKey{"attr:" + name, "addr:" + s, &r})
				continue
			}
			val, _ := attr.Expr.Value(nil)
			if s, ok := verifStaticKey(val); ok {
				want = append(want, verifSpecKey{"attr:" + name, "static:" + s, &r})
			} else {
				return nil, false
			}
		}
	}
	return want, true
}

// verifStaticKey: a literal key value (string, bool, number) as text
func verifStaticKey(val cty.Value) (string, bool) {
	if val == cty.NilVal || !val.IsWhollyKnown() || val.IsNull() {
		return "", false
	}
	switch val.Type() {
	case cty.String:
		return val.AsString(), true
	case cty.Bool:
		if val.True() {
			return "true", true
		}
		return "false", true
	case cty.Number:
		return val.AsBigFloat().String(), true
	}
	return "", false
}

func verifSpecLookup(want []verifSpecKey, es []verifDepEntry) *schema.BodySchema {
	for _, e := range es {
		n := 0
		all := true
		for _, l := range e.keys.Labels {
			n++
			found := false
			for _, w := range want {
				if w.k == "label"+string(rune('0'+l.Index)) && w.v == l.Value {
					found = true
				}
			}
			all = all && found
		}
		for _, a := range e.keys.Attributes {
			n++
			v := "static:"
			if len(a.Expr.Address) > 0 {
				v = "addr:" + a.Expr.Address.String()
			} else {
				s, _ := verifStaticKey(a.Expr.Static)
				v += s
			}
			found := false
			for _, w := range want {
				if w.k == "attr:"+a.Name && w.v == v {
					found = true
				}
			}
			all = all && found
		}
		if all && n == len(want) {
			return e.body
		}
	}
	return nil
}

// verifSpecDependentBodyKeys: the dependent body a block selects and the keys that selected it:
// the body registered for exactly the block's keys; when that body itself marks attributes as
// keys, the body registered for the keys taken against it (second level) if there is one.
func verifSpecDependentBodyKeys(block *hclsyntax.Block, bsch *schema.BlockSchema, es []verifDepEntry) (*schema.BodySchema, []verifSpecKey) {
	b, k, _ := verifSpecDependentBodyResolved(block, bsch, es)
	return b, k
}

// ... and whether the selection is resolved: no keys at all (the static body alone applies), or
// a body registered for the keys on every level the bodies ask for.
func verifSpecDependentBodyResolved(block *hclsyntax.Block, bsch *schema.BlockSchema, es []verifDepEntry) (*schema.BodySchema, []verifSpecKey, bool) {
	want, ok := verifSpecKeys(block, bsch.Labels, bsch.Body)
	if !ok {
		return nil, nil, false
	}
	if len(want) == 0 {
		return nil, nil, true
	}
	first := verifSpecLookup(want, es)
	if first == nil {
		return nil, nil, false
	}
	nested := false
	for _, a := range first.Attributes {
		if a.IsDepKey {
			nested = true
		}
	}
	if nested {
		want2, ok := verifSpecKeys(block, bsch.Labels, first)
		if !ok {
			return first, want, false
		}
		second := verifSpecLookup(want2, es)
		if second == nil {
			return first, want, false
		}
		return second, want2, true
	}
	return first, want, true
}

func verifSpecDependentBody(block *hclsyntax.Block, bsch *schema.BlockSchema, es []verifDepEntry) *schema.BodySchema {
	b, _ := verifSpecDependentBodyKeys(block, bsch, es)
	return b
}

// verifSpecEffectiveNoDynamic: like verifSpecEffective, but nil where the re-statement does not
// apply (dependent bodies not listed); dynamic blocks are ignored (the nested block types stay).
func verifSpecEffectiveNoDynamic(block *hclsyntax.Block, bsch *schema.BlockSchema) *schema.BodySchema {
	es := verifDepEntriesOf(block.Type)
	if bsch.Body == nil || (es == nil && len(bsch.DependentBody) > 0) {
		return nil
	}
	out := &schema.BodySchema{Attributes: map[string]*schema.AttributeSchema{}, Blocks: map[string]*schema.BlockSchema{}, Extensions: bsch.Body.Extensions}
	for n, a := range bsch.Body.Attributes {
		out.Attributes[n] = a
	}
	for n, b := range bsch.Body.Blocks {
		out.Blocks[n] = b
	}
	if es != nil {
		if db := verifSpecDependentBody(block, bsch, es); db != nil {
			for n, a := range db.Attributes {
				out.Attributes[n] = a
			}
			for n, b := range db.Blocks {
				out.Blocks[n] = b
			}
		}
	}
	return out
}

// verifCheckLinks: documentation links are attached to exactly the written labels and attribute
// values that selected a dependent body which has a link, and carry that body's URL.
func verifCheckLinks(body *hclsyntax.Body, bs *schema.BodySchema, links []lang.Link) {
	if bs == nil {
		return
	}
	total := 0
	judged := true
	for _, block := range body.Blocks {
		bsch, ok := bs.Blocks[block.Type]
		if !ok {
			continue
		}
		es := verifDepEntriesOf(block.Type)
		if es == nil {
			if len(bsch.DependentBody) > 0 || (bsch.Body != nil && bsch.Body.DocsLink != nil) {
				judged = false
			}
			continue
		}
		db, keys := verifSpecDependentBodyKeys(block, bsch, es)
		if db == nil || db.DocsLink == nil {
			continue
		}
		for _, k := range keys {
			if k.rng == nil {
				continue
			}
			total++
			n := 0
			for _, l := range links {
				if verifSameRange(l.Range, *k.rng) {
					n++
					verifAssert(strings.HasPrefix(l.URI, db.DocsLink.URL), "C16:link-carries-the-url-of-the-selected-body")
					verifAssert(strings.Contains(l.URI, "utm_source=verif"), "C16:link-carries-the-campaign-parameters-of-the-context")
				}
			}
			verifAssert(n == 1, "C16:one-link-on-every-written-key-that-selected-the-body")
		}
	}
	if judged {
		verifAssert(len(links) == total, "C16:links-only-on-the-keys-that-selected-a-body-with-a-link")
	}
}

// verifCheckLabelCandidates: with the cursor inside the quotes of a completable label of a
// top-level block, the candidates are exactly the label values (of that label index) of the
// block type's dependent-body keys that start with the text between the quote and the cursor.
func verifCheckLabelCandidates(body *hclsyntax.Body, bs *schema.BodySchema, pos hcl.Pos, cs lang.Candidates) {
	if bs == nil {
		return
	}
	at := verifCursorTag()
	for _, block := range body.Blocks {
		bsch, ok := bs.Blocks[block.Type]
		es := verifDepEntriesOf(block.Type)
		if !ok || es == nil {
			continue
		}
		for i, lr := range block.LabelRanges {
			if i >= len(bsch.Labels) || !bsch.Labels[i].Completable {
				continue
			}
			label := block.Labels[i]
			// a terminated, quoted label (an unterminated one is recovered by the parser with a
			// range that runs to the next line: outside this oracle)
			if lr.End.Byte-lr.Start.Byte != len(label)+2 || lr.Start.Line != lr.End.Line {
				continue
			}
			if !verifAnd(lr.Start.Byte+1 <= pos.Byte, pos.Byte <= lr.End.Byte-1) {
				continue
			}
			k := verifConcretize(pos.Byte-lr.Start.Byte-1, 0, len(label))
			prefix := label[:k]
			var want []string
			for _, e := range es {
				for _, l := range e.keys.Labels {
					if l.Index != i || !hasPrefixSym(l.Value, prefix) {
						continue
					}
					dup := false
					for _, w := range want {
						if w == l.Value {
							dup = true
						}
					}
					if !dup {
						want = append(want, l.Value)
					}
				}
			}
			for _, w := range want {
				n := 0
				for _, c := range cs.List {
					if c.Label == w {
						n++
					}
				}
				verifAssert(n == 1, "C07:label-value-of-dependent-keys-offered-once"+at)
			}
			verifAssert(len(cs.List) == len(want), "C07:label-candidates-exactly-the-dependent-key-values"+at)
			for j := 1; j < len(cs.List); j++ {
				verifAssert(cs.List[j-1].Label <= cs.List[j].Label, "C07:label-candidates-sorted"+at)
			}
			return
		}
	}
}

// verifOracleSchema: the schema of seed i, built afresh for an oracle: what earlier queries may
// have done to the schema the decoder works on is not trusted.
func verifOracleSchema(i int) *schema.BodySchema {
	return verifSchemas(verifSeedList()[i].schema)
}

// verifSpecBodyItems: what a body may still declare, re-stated from the property: the attributes
// and block types of the effective schema (static body plus the dependent body db, nil if none)
// with the typed prefix that can still be declared - attribute not yet written and not read-only,
// block type below its maximum - plus count / for_each where enabled and not written, plus
// "dynamic" where dynamic blocks are enabled and the body in force declares block types; a block
// type that is also an attribute name is offered as the attribute only; sorted by name.
func verifSpecBodyItems(body *hclsyntax.Body, static, db *schema.BodySchema, prefix string) []string {
	var out []string
	add := func(n string) {
		if !hasPrefixSym(n, prefix) {
			return
		}
		for _, o := range out {
			if o == n {
				return
			}
		}
		out = append(out, n)
	}
	attrs := map[string]*schema.AttributeSchema{}
	blocks := map[string]*schema.BlockSchema{}
	var ext *schema.BodyExtensions
	for _, b := range []*schema.BodySchema{static, db} {
		if b == nil {
			continue
		}
		for n, a := range b.Attributes {
			attrs[n] = a
		}
		for n, bl := range b.Blocks {
			blocks[n] = bl
		}
		if b.Extensions != nil {
			ext = b.Extensions
		}
	}
	if ext != nil && ext.Count {
		if _, written := body.Attributes["count"]; !written {
			add("count")
		}
	}
	if ext != nil && ext.ForEach {
		if _, written := body.Attributes["for_each"]; !written {
			add("for_each")
		}
	}
	for n, a := range attrs {
		if a.IsComputed && !a.IsOptional {
			continue
		}
		if _, written := body.Attributes[n]; written {
			continue
		}
		add(n)
	}
	if len(attrs) == 0 && static != nil && static.AnyAttribute != nil && prefix == "" {
		add("name")
	}
	declared := func(t string) uint64 {
		n := uint64(0)
		for _, b := range body.Blocks {
			if b.Type == t {
				n++
			}
		}
		return n
	}
	for n, bl := range blocks {
		if _, clash := attrs[n]; clash {
			continue
		}
		if bl.MaxItems > 0 && declared(n) >= bl.MaxItems {
			continue
		}
		add(n)
	}
	if static != nil && static.Extensions != nil && static.Extensions.DynamicBlocks {
		src := db
		if src == nil {
			src = static
		}
		if len(src.Blocks) > 0 {
			add("dynamic")
		}
	}
	// sorted by name
	for i := 1; i < len(out); i++ {
		for j := i; j > 0 && out[j-1] > out[j]; j-- {
			out[j-1], out[j] = out[j], out[j-1]
		}
	}
	return out
}

// verifCheckBodyCandidates: with the cursor on an attribute name or a block type keyword - at top
// level or directly inside a top-level block whose dependent bodies are listed for the oracle -
// the candidates are exactly what that body may still declare, with the text between the start
// of the name and the cursor as prefix.
func verifCheckBodyCandidates(body *hclsyntax.Body, static, db *schema.BodySchema, pos hcl.Pos, cs lang.Candidates, depth int) {
	if static == nil {
		return
	}
	at := verifCursorTag()
	check := func(name string, start int) {
		k := verifConcretize(pos.Byte-start, 0, len(name))
		want := verifSpecBodyItems(body, static, db, name[:k])
		for _, w := range want {
			n := 0
			for _, c := range cs.List {
				if c.Label == w {
					n++
				}
			}
			verifAssert(n == 1, "C07:item-the-body-may-still-declare-is-offered-once["+w+"]"+at)
		}
		verifAssert(len(cs.List) == len(want), "C07:body-candidates-exactly-what-may-still-be-declared"+at)
		for j := 1; j < len(cs.List); j++ {
			verifAssert(cs.List[j-1].Label <= cs.List[j].Label, "C07:body-candidates-sorted"+at)
		}
	}
	for name, attr := range body.Attributes {
		if verifAnd(attr.NameRange.Start.Byte <= pos.Byte, pos.Byte < attr.NameRange.End.Byte) {
			check(name, attr.NameRange.Start.Byte)
			return
		}
	}
	for _, block := range body.Blocks {
		if verifAnd(block.TypeRange.Start.Byte <= pos.Byte, pos.Byte < block.TypeRange.End.Byte) {
			known := false
			for _, b := range []*schema.BodySchema{static, db} {
				if b != nil {
					if _, ok := b.Blocks[block.Type]; ok {
						known = true
					}
				}
			}
			if known {
				check(block.Type, block.TypeRange.Start.Byte)
			}
			return
		}
		if depth == 0 && block.Body != nil && verifAnd(block.OpenBraceRange.End.Byte <= pos.Byte, pos.Byte <= block.CloseBraceRange.Start.Byte) {
			bsch, ok := static.Blocks[block.Type]
			if !ok || bsch.Body == nil {
				return
			}
			var dep *schema.BodySchema
			if len(bsch.DependentBody) > 0 {
				es := verifDepEntriesOf(block.Type)
				if es == nil {
					return
				}
				var resolved bool
				dep, _, resolved = verifSpecDependentBodyResolved(block, bsch, es)
				// a second-level key that selects nothing leaves the first-level body in force
				if !resolved && dep == nil {
					return
				}
			}
			verifCheckBodyCandidates(block.Body, bsch.Body, dep, pos, cs, depth+1)
			return
		}
	}
}

// verifCheckLonePrefix: a half-typed word that stands alone at top level (not yet an attribute or a
// block, so the file does not parse): every candidate starts with what is typed between the start
// of the word and the cursor, and its edit covers the word from its start.
func verifCheckLonePrefix(d *PathDecoder, body *hclsyntax.Body, pos hcl.Pos, cs lang.Candidates) {
	for _, a := range body.Attributes {
		if verifAnd(a.SrcRange.Start.Byte <= pos.Byte, pos.Byte <= a.SrcRange.End.Byte) {
			return
		}
	}
	for _, b := range body.Blocks {
		if verifAnd(b.Range().Start.Byte <= pos.Byte, pos.Byte <= b.Range().End.Byte) {
			return
		}
	}
	tokens, _ := hclsyntax.LexConfig(d.pathCtx.Files[vf].Bytes, vf, hcl.InitialPos)
	at := verifCursorTag()
	for k, t := range tokens {
		if t.Type != hclsyntax.TokenIdent || !verifAnd(t.Range.Start.Byte <= pos.Byte, pos.Byte < t.Range.End.Byte) {
			continue
		}
		// alone on its line: a newline (or nothing) before, a newline after
		if k > 0 && tokens[k-1].Type != hclsyntax.TokenNewline && tokens[k-1].Type != hclsyntax.TokenComment {
			return
		}
		if k+1 < len(tokens) && tokens[k+1].Type != hclsyntax.TokenNewline && tokens[k+1].Type != hclsyntax.TokenEOF {
			return
		}
		word := string(t.Bytes)
		n := verifConcretize(pos.Byte-t.Range.Start.Byte, 0, len(word))
		prefix := word[:n]
		for _, c := range cs.List {
			verifAssert(hasPrefixSym(c.Label, prefix), "C07:candidates-for-a-half-typed-word-start-with-what-is-typed"+at)
			verifAssert(c.TextEdit.Range.Start.Byte == t.Range.Start.Byte, "C06:edit-of-a-half-typed-word-starts-at-the-word"+at)
		}
		return
	}
}

// the seeds whose first block is a "res" block: label completion against the dependent keys
func verifResSeeds() []int {
	var out []int
	for i, s := range verifSeedList() {
		if len(s.src) > 4 && s.src[:4] == "res " {
			out = append(out, i)
		}
	}
	return out
}

// C07 (G): body candidates on attribute names and block types, every seed, every layout
func VerifP_C07_BodyCompletion_N() int            { return len(verifSeedList()) }
func VerifP_C07_BodyCompletion_Name(i int) string { return verifSeedList()[i].name }
func VerifP_C07_BodyCompletion(i int) {
	d, _ := verifSeedDecoder(i)
	pos := verifAnyPos(vf)
	cs, err := d.CompletionAtPos(context.Background(), vf, pos)
	if err == nil {
		if body, ok := d.pathCtx.Files[vf].Body.(*hclsyntax.Body); ok {
			verifCheckLonePrefix(d, body, pos, cs)
			verifCheckBodyCandidates(body, verifOracleSchema(i), nil, pos, cs, 0)
		}
	}
	verifReach("end")
}

func VerifP_C07_LabelCompletion_N() int { return len(verifResSeeds()) }
func VerifP_C07_LabelCompletion_Name(i int) string {
	return verifSeedList()[verifResSeeds()[i]].name
}
func VerifP_C07_LabelCompletion(i int) {
	d, _ := verifSeedDecoder(verifResSeeds()[i])
	pos := verifAnyPos(vf)
	cs, err := d.CompletionAtPos(context.Background(), vf, pos)
	if err == nil {
		if body, ok := d.pathCtx.Files[vf].Body.(*hclsyntax.Body); ok {
			verifCheckLabelCandidates(body, verifOracleSchema(verifResSeeds()[i]), pos, cs)
		}
	}
	verifReach("end")
}

// Completion with required-field pre-filling switched on (a decoder option of the language
// server): the block-carrying seeds (SB, and those of SA that start with a block), every layout,
// every cursor; edit ranges and text forms as in the driver below.
func verifPrefillSeeds() []int {
	var out []int
	for i, s := range verifSeedList() {
		if s.schema == 2 || strings.HasPrefix(s.src, "blk") || strings.HasPrefix(s.src, "nolabel") {
			out = append(out, i)
		}
	}
	return out
}
func VerifP_C01C02C06_CompletionPrefill_N() int { return len(verifPrefillSeeds()) }
func VerifP_C01C02C06_CompletionPrefill_Name(i int) string {
	return verifSeedList()[verifPrefillSeeds()[i]].name
}
func VerifP_C01C02C06_CompletionPrefill(i int) {
	d, _ := verifSeedDecoder(verifPrefillSeeds()[i])
	d.PrefillRequiredFields = true
	pos := verifAnyPos(vf)
	cs, err := d.CompletionAtPos(context.Background(), vf, pos)
	if err == nil {
		gCheckCandidatesFrom(cs, pos, 0)
	}
	verifReach("end")
}

func VerifP_C01C02C04C05C06C08_Completion_N() int            { return len(verifSeedList()) }
func VerifP_C01C02C04C05C06C08_Completion_Name(i int) string { return verifSeedList()[i].name }
func VerifP_C01C02C04C05C06C08_Completion(i int) {
	d, _ := verifSeedDecoder(i)
	pos := verifAnyPos(vf)
	verifFreeze(d.pathCtx)
	verifQuery(func() {
		cs, err := d.CompletionAtPos(context.Background(), vf, pos)
		if err == nil {
			gCheckCandidates(cs, pos)
			if body, ok := d.pathCtx.Files[vf].Body.(*hclsyntax.Body); ok {
				verifCheckLabelCandidates(body, verifOracleSchema(i), pos, cs)
			}
			verifCheckSelfCandidates(d, verifOracleSchema(i), pos, cs)
			verifCheckArgCandidates(d, pos, cs)
			verifCheckFunctionCandidates(d, pos, cs)
			verifCheckUnaryOperandCandidates(d, pos, cs)
		}
	})
	verifNoWrites("C04:completion-writes", true)
	verifNoWrites("C05:completion-writes", false)
	verifReach("end")
}

// verifStructuralTokens: the oracle for attribute-name, block-type and label
// tokens, computed from the (stretched) syntax tree and the effective schema.
func verifStructuralTokens(body *hclsyntax.Body, bs *schema.BodySchema, parent lang.SemanticTokenModifiers) []lang.SemanticToken {
	var out []lang.SemanticToken
	if bs == nil {
		return out
	}
	join := func(a lang.SemanticTokenModifiers, more ...lang.SemanticTokenModifiers) lang.SemanticTokenModifiers {
		r := lang.SemanticTokenModifiers{}
		r = append(r, a...)
		for _, m := range more {
			r = append(r, m...)
		}
		return r
	}
	for name, attr := range body.Attributes {
		as, ok := bs.Attributes[name]
		if !ok {
			if bs.Extensions != nil && bs.Extensions.Count && name == "count" {
				as = schemahelper.CountAttributeSchema()
			} else if bs.Extensions != nil && bs.Extensions.ForEach && name == "for_each" {
				as = schemahelper.ForEachAttributeSchema()
			} else if bs.AnyAttribute != nil {
				as = bs.AnyAttribute
			} else {
				continue
			}
		}
		out = append(out, lang.SemanticToken{Type: lang.TokenAttrName, Modifiers: join(parent, as.SemanticTokenModifiers), Range: attr.NameRange})
	}
	for _, block := range body.Blocks {
		bsch, ok := bs.Blocks[block.Type]
		if !ok {
			continue
		}
		bm := join(parent, bsch.SemanticTokenModifiers)
		out = append(out, lang.SemanticToken{Type: lang.TokenBlockType, Modifiers: bm, Range: block.TypeRange})
		for i, lr := range block.LabelRanges {
			if i < len(bsch.Labels) {
				out = append(out, lang.SemanticToken{Type: lang.TokenBlockLabel, Modifiers: join(bm, bsch.Labels[i].SemanticTokenModifiers), Range: lr})
			}
		}
		if block.Body != nil {
			merged, _ := schemahelper.MergeBlockBodySchemas(block.AsHCLBlock(), bsch)
			out = append(out, verifStructuralTokens(block.Body, merged, bm)...)
		}
	}
	return out
}

func verifAllExprRanges(body *hclsyntax.Body) []hcl.Range {
	var out []hcl.Range
	for _, a := range body.Attributes {
		out = append(out, a.Expr.Range())
	}
	for _, b := range body.Blocks {
		if b.Body != nil {
			out = append(out, verifAllExprRanges(b.Body)...)
		}
	}
	return out
}

func verifSameModifiers(a, b lang.SemanticTokenModifiers) bool {
	if len(a) != len(b) {
		return false
	}
	for i := range a {
		if a[i] != b[i] {
			return false
		}
	}
	return true
}

func VerifP_C01C02C04C05C13_SemTok_N() int            { return len(verifSeedList()) }
func VerifP_C01C02C04C05C13_SemTok_Name(i int) string { return verifSeedList()[i].name }
func VerifP_C01C02C04C05C13_SemTok(i int) {
	d, _ := verifSeedDecoder(i)
	verifFreeze(d.pathCtx)
	verifQuery(func() {
		toks, err := d.SemanticTokensInFile(context.Background(), vf)
		if err == nil {
			for k, t := range toks {
				verifAssert(verifRealRange(vf, t.Range), "C02:token-range")
				verifAssert(t.Range.Start.Byte < t.Range.End.Byte, "C13:token-nonempty")
				if k > 0 {
					verifAssert(toks[k-1].Range.End.Byte <= t.Range.Start.Byte, "C13:tokens-ordered-disjoint")
				}
				known := false
				for _, st := range lang.SupportedSemanticTokenTypes {
					if st == t.Type {
						known = true
					}
				}
				verifAssert(known, "C13:token-type-advertised")
			}
			// reference steps are marked exactly for the written references that resolve to a collected target
			for _, o := range d.pathCtx.ReferenceOrigins {
				mo, ok := o.(reference.MatchableOrigin)
				if !ok {
					continue
				}
				if _, isLocal := o.(reference.LocalOrigin); !isLocal {
					continue
				}
				_, resolves := d.pathCtx.ReferenceTargets.Match(mo)
				marked := false
				for _, t := range toks {
					if t.Type == lang.TokenReferenceStep {
						marked = verifOr(marked, verifAnd(o.OriginRange().Start.Byte <= t.Range.Start.Byte, t.Range.End.Byte <= o.OriginRange().End.Byte))
					}
				}
				verifAssert(marked == resolves, "C13:reference-steps-marked-iff-the-reference-resolves")
			}
			// exactness of the structural tokens against the oracle
			body := d.pathCtx.Files[vf].Body.(*hclsyntax.Body)
			want := verifStructuralTokens(body, verifOracleSchema(i), lang.SemanticTokenModifiers{})
			exprs := verifAllExprRanges(body)
			for _, t := range toks {
				if t.Type == lang.TokenAttrName || t.Type == lang.TokenBlockType || t.Type == lang.TokenBlockLabel {
					// either one of the schema-known structural elements, or part of a value (type declarations mark object attribute names)
					ok := false
					for _, w := range want {
						if w.Type == t.Type {
							ok = verifOr(ok, verifAnd(t.Range.Start.Byte == w.Range.Start.Byte, t.Range.End.Byte == w.Range.End.Byte))
						}
					}
					for _, e := range exprs {
						ok = verifOr(ok, verifAnd(e.Start.Byte <= t.Range.Start.Byte, t.Range.End.Byte <= e.End.Byte))
					}
					verifAssert(ok, "C13:no-structural-token-for-unknown-elements")
				}
			}
			for _, w := range want {
				found := false
				for _, t := range toks {
					if t.Type == w.Type && verifSameModifiers(t.Modifiers, w.Modifiers) {
						found = verifOr(found, verifAnd(t.Range.Start.Byte == w.Range.Start.Byte, t.Range.End.Byte == w.Range.End.Byte))
					}
				}
				verifAssert(found, "C13:structural-token-with-inherited-modifiers-present")
			}
		}
	})
	verifNoWrites("C04:semtok-writes", true)
	verifNoWrites("C05:semtok-writes", false)
	verifReach("end")
}

func verifCheckSymbols(syms []Symbol, parent *hcl.Range) {
	for _, s := range syms {
		r := s.Range()
		verifAssert(verifRealRange(vf, r), "C02:symbol-range")
		if parent != nil {
			verifAssert(verifAnd(parent.Start.Byte <= r.Start.Byte, r.End.Byte <= parent.End.Byte), "C14:child-inside-parent")
		}
		verifAssert(s.Name() != "", "C14:symbol-name-nonempty")
		verifCheckSymbols(s.NestedSymbols(), &r)
	}
}

// verifCheckOutline: the outline corresponds one-to-one, recursively, to what is written: an
// attribute or block symbol per item of a body (by name and extent), under an attribute one symbol
// per element of a list literal (named by its index, spanning the element) or per literally keyed
// item of an object literal (named by the key - plain, quoted or a keyword -, spanning key to value).
func verifCheckOutline(body *hclsyntax.Body, syms []Symbol) {
	verifAssert(len(syms) == len(body.Attributes)+len(body.Blocks), "C14:one-symbol-per-item-at-every-depth")
	for _, sy := range syms {
		switch s := sy.(type) {
		case *AttributeSymbol:
			a, ok := body.Attributes[s.AttrName]
			verifAssert(ok, "C14:attribute-symbol-names-a-written-attribute")
			if ok {
				verifAssert(verifSameRange(s.Range(), a.SrcRange), "C14:attribute-symbol-with-its-extent")
				verifCheckExprOutline(a.Expr, s.NestedSymbols())
			}
		case *BlockSymbol:
			n := 0
			for _, b := range body.Blocks {
				if verifSameRange(s.Range(), b.Range()) {
					n++
					verifAssert(s.Type == b.Type, "C14:block-symbol-type")
					verifAssert(len(s.Labels) == len(b.Labels), "C14:block-symbol-labels")
					for k := range b.Labels {
						if k < len(s.Labels) {
							verifAssert(s.Labels[k] == b.Labels[k], "C14:block-symbol-labels")
						}
					}
					verifCheckOutline(b.Body, s.NestedSymbols())
				}
			}
			verifAssert(n == 1, "C14:block-symbol-is-a-written-block")
		}
	}
}

func verifCheckExprOutline(expr hclsyntax.Expression, nested []Symbol) {
	switch e := expr.(type) {
	case *hclsyntax.TupleConsExpr:
		verifAssert(len(nested) == len(e.Exprs), "C14:one-symbol-per-list-element")
		for k, el := range e.Exprs {
			if k < len(nested) {
				verifAssert(nested[k].Name() == verifItoa(k), "C14:list-element-symbol-named-by-its-index")
				verifAssert(verifSameRange(nested[k].Range(), el.Range()), "C14:list-element-symbol-spans-the-element")
				verifCheckExprOutline(el, nested[k].NestedSymbols())
			}
		}
	case *hclsyntax.ObjectConsExpr:
		k := 0
		for _, it := range e.Items {
			key, _ := it.KeyExpr.Value(nil)
			if key.IsNull() || !key.IsWhollyKnown() || key.Type() != cty.String {
				continue // not literally keyed
			}
			verifAssert(k < len(nested), "C14:one-symbol-per-literally-keyed-object-item")
			if k < len(nested) {
				verifAssert(nested[k].Name() == key.AsString(), "C14:object-item-symbol-named-by-its-key")
				verifAssert(verifAnd(nested[k].Range().Start.Byte == it.KeyExpr.Range().Start.Byte, nested[k].Range().End.Byte == it.ValueExpr.Range().End.Byte), "C14:object-item-symbol-spans-key-to-value")
				verifCheckExprOutline(it.ValueExpr, nested[k].NestedSymbols())
			}
			k++
		}
		verifAssert(len(nested) == k, "C14:one-symbol-per-literally-keyed-object-item")
	default:
		verifAssert(len(nested) == 0, "C14:no-nested-symbols-under-a-scalar-value")
	}
}

func verifItoa(n int) string {
	if n == 0 {
		return "0"
	}
	s := ""
	for n > 0 {
		s = string(rune('0'+n%10)) + s
		n /= 10
	}
	return s
}

func VerifP_C01C02C04C05C14_Symbols_N() int            { return len(verifSeedList()) }
func VerifP_C01C02C04C05C14_Symbols_Name(i int) string { return verifSeedList()[i].name }
func VerifP_C01C02C04C05C14_Symbols(i int) {
	d, _ := verifSeedDecoder(i)
	verifFreeze(d.pathCtx)
	verifQuery(func() {
		syms, err := d.SymbolsInFile(vf)
		if err == nil {
			verifCheckSymbols(syms, nil)
			for k := 1; k < len(syms); k++ {
				verifAssert(syms[k-1].Range().Start.Byte <= syms[k].Range().Start.Byte, "C14:source-order")
			}
			// one symbol per attribute and block written at the top level, named after it
			body := d.pathCtx.Files[vf].Body.(*hclsyntax.Body)
			verifAssert(len(syms) == len(body.Attributes)+len(body.Blocks), "C14:one-symbol-per-item")
			for name, a := range body.Attributes {
				found := false
				for _, sy := range syms {
					if sy.Name() == name {
						found = verifOr(found, verifAnd(sy.Range().Start.Byte == a.SrcRange.Start.Byte, sy.Range().End.Byte == a.SrcRange.End.Byte))
					}
				}
				verifAssert(found, "C14:attribute-symbol-with-its-extent")
			}
			for _, b := range body.Blocks {
				want := b.Type
				for _, l := range b.Labels {
					want += " \"" + l + "\""
				}
				found := false
				for _, sy := range syms {
					if sy.Name() == want {
						found = verifOr(found, verifAnd(sy.Range().Start.Byte == b.Range().Start.Byte, sy.Range().End.Byte == b.Range().End.Byte))
					}
				}
				verifAssert(found, "C14:block-symbol-with-its-extent")
			}
			verifCheckOutline(body, syms)
		}
	})
	verifNoWrites("C04:symbols-writes", true)
	verifNoWrites("C05:symbols-writes", false)
	verifReach("end")
}

// verifCheckLabelCounts: a top-level block of a known type with more labels than its schema
// declares gets one error per surplus label, each on its own label; one with fewer gets one error.
func verifCheckLabelCounts(body *hclsyntax.Body, bs *schema.BodySchema, diags hcl.Diagnostics) {
	if bs == nil {
		return
	}
	for _, block := range body.Blocks {
		bsch, ok := bs.Blocks[block.Type]
		if !ok {
			continue
		}
		for k, lr := range block.LabelRanges {
			n := 0
			for _, dg := range diags {
				if strings.HasPrefix(dg.Summary, "Too many labels") && dg.Subject != nil && verifSameRange(*dg.Subject, lr) {
					n++
				}
			}
			if k >= len(bsch.Labels) {
				verifAssert(n == 1, "C15:one-error-on-every-surplus-label")
			} else {
				verifAssert(n == 0, "C15:no-error-on-a-declared-label")
			}
		}
	}
}

// verifCheckUnexpected: 'unexpected' diagnostics are exactly the top-level items, and the items
// directly inside top-level blocks, that the effective schema (static body, the dependent body the
// block selects, the enabled extensions) does not know - one each, on the item - and none inside a
// block whose dependent body cannot be resolved. Blocks whose dependent bodies are not listed for
// the oracle are not judged.
func verifCheckUnexpected(body *hclsyntax.Body, bs *schema.BodySchema, diags hcl.Diagnostics) {
	if bs == nil {
		return
	}
	count := func(summary string, subject hcl.Range) int {
		n := 0
		for _, dg := range diags {
			if dg.Summary == summary && dg.Subject != nil && verifSameRange(*dg.Subject, subject) {
				n++
			}
		}
		return n
	}
	expect := func(unexpected bool, summary string, subject hcl.Range, tag string) {
		if unexpected {
			verifAssert(count(summary, subject) == 1, "C15:one-unexpected-error-per-unknown-"+tag)
		} else {
			verifAssert(count(summary, subject) == 0, "C15:no-unexpected-error-for-known-"+tag)
		}
	}
	knownAttr := func(b *schema.BodySchema, name string) bool {
		if b == nil {
			return false
		}
		if _, ok := b.Attributes[name]; ok {
			return true
		}
		if b.AnyAttribute != nil {
			return true
		}
		if b.Extensions != nil && ((b.Extensions.Count && name == "count") || (b.Extensions.ForEach && name == "for_each")) {
			return true
		}
		return false
	}
	knownBlock := func(b *schema.BodySchema, typ string) bool {
		if b == nil {
			return false
		}
		if _, ok := b.Blocks[typ]; ok {
			return true
		}
		return b.Extensions != nil && b.Extensions.DynamicBlocks && typ == "dynamic"
	}
	for name, attr := range body.Attributes {
		expect(!knownAttr(bs, name), "Unexpected attribute", attr.SrcRange, "attribute")
	}
	for _, block := range body.Blocks {
		bsch, ok := bs.Blocks[block.Type]
		expect(!ok, "Unexpected block", block.TypeRange, "block")
		if !ok || bsch.Body == nil || block.Body == nil {
			continue
		}
		var db *schema.BodySchema
		resolved := true
		if len(bsch.DependentBody) > 0 {
			es := verifDepEntriesOf(block.Type)
			if es == nil {
				continue
			}
			db, _, resolved = verifSpecDependentBodyResolved(block, bsch, es)
		}
		if !resolved {
			// nothing is reported as unexpected anywhere inside a block whose dependent body is unresolved
			for _, dg := range diags {
				if dg.Subject != nil && (dg.Summary == "Unexpected attribute" || dg.Summary == "Unexpected block") {
					verifAssert(verifNot(verifAnd(block.Body.Range().Start.Byte <= dg.Subject.Start.Byte, dg.Subject.End.Byte <= block.Body.Range().End.Byte)), "C15:nothing-unexpected-inside-an-unresolved-block")
				}
			}
		}
		for name, attr := range block.Body.Attributes {
			known := knownAttr(bsch.Body, name) || knownAttr(db, name)
			expect(resolved && !known, "Unexpected attribute", attr.SrcRange, "attribute-in-block")
		}
		for _, nb := range block.Body.Blocks {
			known := knownBlock(bsch.Body, nb.Type) || knownBlock(db, nb.Type)
			expect(resolved && !known, "Unexpected block", nb.TypeRange, "block-in-block")
		}
	}
}

func VerifP_C01C02C04C05C15_Validate_N() int            { return len(verifSeedList()) }
func VerifP_C01C02C04C05C15_Validate_Name(i int) string { return verifSeedList()[i].name }
func VerifP_C01C02C04C05C15_Validate(i int) {
	d, _ := verifSeedDecoder(i)
	verifFreeze(d.pathCtx)
	verifQuery(func() {
		diags, err := d.ValidateFile(context.Background(), vf)
		if err == nil {
			for _, dg := range diags {
				if dg.Subject != nil {
					verifAssert(verifRealRange(vf, *dg.Subject), "C02:diagnostic-subject")
				}
			}
			if body, ok := d.pathCtx.Files[vf].Body.(*hclsyntax.Body); ok {
				verifCheckUnexpected(body, verifOracleSchema(i), diags)
			}
			if body, ok := d.pathCtx.Files[vf].Body.(*hclsyntax.Body); ok {
				verifCheckLabelCounts(body, verifOracleSchema(i), diags)
			}
			if s := verifSeedList()[i]; len(s.name) > 6 && s.name[:6] == "valid-" {
				// a configuration that conforms to the schema at every depth
				for _, dg := range diags {
					verifAssert(dg.Summary != "Unexpected attribute" && dg.Summary != "Unexpected block", "C15:nothing-unexpected-in-a-conforming-configuration")
					verifAssert(!strings.HasPrefix(dg.Summary, "Too many blocks"), "C15:no-surplus-block-in-a-conforming-configuration")
				}
			}
		}
	})
	verifNoWrites("C04:validate-writes", true)
	verifNoWrites("C05:validate-writes", false)
	verifReach("end")
}

func VerifP_C01C02C04C05C09_Targets_N() int            { return len(verifSeedList()) }
func VerifP_C01C02C04C05C09_Targets_Name(i int) string { return verifSeedList()[i].name }
func VerifP_C01C02C04C05C09_Targets(i int) {
	// the first query on a fresh schema: what it writes into the caller's schema for good would be
	// invisible to every later query (a map filled once is copied properly from then on)
	d, _, _ := verifSeedDecoderFresh(i)
	verifFreeze(d.pathCtx)
	verifQuery(func() {
		ts, err := d.CollectReferenceTargets()
		if err == nil {
			verifCheckTargets(ts, nil)
			body := d.pathCtx.Files[vf].Body.(*hclsyntax.Body)
			verifCheckDeclaredTargets(body, verifOracleSchema(i), ts)
		}
	})
	verifNoWrites("C04:targets-writes", true)
	verifNoWrites("C05:targets-writes", false)
	verifReach("end")
}

// verifSpecAddress: the address the schema's steps denote for a block or attribute, re-stated from
// the documentation of the step kinds (static name, label value, attribute name); ok=false when a
// step cannot be resolved (missing label) or is of a kind this specification does not cover.
func verifSpecAddress(steps schema.Address, labels []string, attrName string, body *hclsyntax.Body) (string, bool) {
	out := ""
	first := true
	for _, s := range steps {
		var part string
		switch st := s.(type) {
		case schema.AttrValueStep:
			// the step is the attribute's literal string value; an optional step is left out when
			// the attribute is not written; anything else written there makes the address unresolvable
			var attr *hclsyntax.Attribute
			if body != nil {
				attr = body.Attributes[st.Name]
			}
			if attr == nil {
				if st.IsOptional {
					continue
				}
				return "", false
			}
			val, _ := attr.Expr.Value(nil)
			if !val.IsWhollyKnown() || val.Type() != cty.String {
				return "", false
			}
			part = val.AsString()
		case schema.StaticStep:
			part = st.Name
		case schema.LabelStep:
			if int(st.Index) >= len(labels) {
				return "", false
			}
			part = labels[st.Index]
		case schema.AttrNameStep:
			part = attrName
		default:
			return "", false
		}
		if !first {
			out += "."
		}
		first = false
		out += part
	}
	return out, true
}

// verifCheckDeclaredTargets: every top-level block and attribute the schema marks addressable has a
// target with the address its steps denote, with the declaration's extent and header as range and
// definition range; items unknown to the schema have none.
func verifCheckDeclaredTargets(body *hclsyntax.Body, bs *schema.BodySchema, ts reference.Targets) {
	if bs == nil {
		return
	}
	for _, block := range body.Blocks {
		bsch, ok := bs.Blocks[block.Type]
		if !ok {
			for _, t := range ts {
				if t.RangePtr != nil {
					verifAssert(verifNot(verifAnd(block.Range().Start.Byte <= t.RangePtr.Start.Byte, t.RangePtr.End.Byte <= block.Range().End.Byte)), "C09:no-target-inside-unknown-block")
				}
			}
			continue
		}
		if bsch.Address != nil {
			want, ok := verifSpecAddress(bsch.Address.Steps, block.Labels, "", block.Body)
			n := 0
			for _, t := range ts {
				if !ok && t.RangePtr != nil {
					verifAssert(verifNot(verifSameRange(*t.RangePtr, block.Range())), "C09:unresolvable-address-has-no-target")
				}
				if ok && t.Addr.String() == want && t.RangePtr != nil {
					if verifSameRange(*t.RangePtr, block.Range()) {
						n++
						if t.DefRangePtr != nil {
							verifAssert(verifSameRange(*t.DefRangePtr, block.DefRange()), "C09:block-target-definition-is-its-header")
						}
						verifAssert(t.ScopeId == bsch.Address.ScopeId, "C09:block-target-scope")
						verifCheckBlockTargetType(block, bsch, t)
						verifCheckBlockCollections(block, bsch, t)
					}
				}
			}
			if ok {
				verifAssert(n >= 1, "C09:addressable-block-has-target-with-its-extent")
			}
		}
		// locals-like bodies: every attribute of an any-attribute body with an address schema
		if block.Body != nil && bsch.Body != nil && bsch.Body.AnyAttribute != nil && bsch.Body.AnyAttribute.Address != nil {
			as := bsch.Body.AnyAttribute
			for name, attr := range block.Body.Attributes {
				want, _ := verifSpecAddress(as.Address.Steps, nil, name, nil)
				typed, untyped := 0, 0
				for _, t := range ts {
					if t.Addr.String() == want && t.RangePtr != nil && verifSameRange(*t.RangePtr, attr.SrcRange) {
						if t.DefRangePtr != nil {
							verifAssert(verifSameRange(*t.DefRangePtr, attr.NameRange), "C09:attribute-target-definition-is-its-name")
						}
						if t.Type == cty.NilType {
							untyped++
						} else {
							typed++
							verifCheckExprTargetType(attr.Expr, t)
							verifCheckElementTargets(attr.Expr, t)
						}
					}
				}
				if as.Address.AsReference {
					verifAssert(untyped == 1, "C09:as-reference-attribute-has-one-reference-target")
				}
				if as.Address.AsExprType {
					verifAssert(typed == 1, "C09:as-expr-type-attribute-has-one-typed-target")
				}
			}
		}
	}
	for name, attr := range body.Attributes {
		as, ok := bs.Attributes[name]
		if !ok || as.Address == nil {
			if !ok && bs.AnyAttribute == nil {
				for _, t := range ts {
					if t.RangePtr != nil {
						verifAssert(verifNot(verifSameRange(*t.RangePtr, attr.SrcRange)), "C09:no-target-for-unknown-attribute")
					}
				}
			}
			continue
		}
		want, _ := verifSpecAddress(as.Address.Steps, nil, name, nil)
		n := 0
		for _, t := range ts {
			if t.Addr.String() == want && t.RangePtr != nil && verifSameRange(*t.RangePtr, attr.SrcRange) {
				n++
				if t.Type != cty.NilType {
					verifCheckElementTargets(attr.Expr, t)
				}
			}
		}
		verifAssert(n >= 1, "C09:addressable-attribute-has-target-with-its-extent")
	}
}

// verifCheckBlockTargetType: a typed block target carries the declared type - the type written in
// the attribute a type-of block points at (dynamic when absent or not a type), an object with one
// attribute per attribute and nested block type of the body when the body is data.
func verifCheckBlockTargetType(block *hclsyntax.Block, bsch *schema.BlockSchema, t reference.Target) {
	if t.Type == cty.NilType {
		return
	}
	as := bsch.Address
	if as.AsTypeOf != nil && as.AsTypeOf.AttributeExpr != "" && !as.BodyAsData && !as.DependentBodyAsData {
		want := cty.DynamicPseudoType
		if attr, ok := block.Body.Attributes[as.AsTypeOf.AttributeExpr]; ok && bsch.Body != nil {
			if asch, ok := bsch.Body.Attributes[as.AsTypeOf.AttributeExpr]; ok {
				if _, isDecl := asch.Constraint.(schema.TypeDeclaration); isDecl {
					if ty, diags := typeexpr.TypeConstraint(attr.Expr); !diags.HasErrors() {
						want = ty
					}
				}
			}
		}
		verifAssert(t.Type.Equals(want), "C09:type-of-block-target-has-the-declared-type")
		return
	}
	if as.DependentBodyAsData && !as.BodyAsData && as.AsTypeOf == nil {
		// the data of the block is its dependent body: an object with every attribute of the body the block selects
		if es := verifDepEntriesOf(block.Type); es != nil {
			if db, _, resolved := verifSpecDependentBodyResolved(block, bsch, es); resolved && db != nil && t.Type.IsObjectType() {
				for name, asch := range db.Attributes {
					verifAssert(t.Type.HasAttribute(name), "C09:dependent-body-as-data-type-has-every-attribute-of-the-selected-body["+name+"]")
					if lt, ok := asch.Constraint.(schema.LiteralType); ok && t.Type.HasAttribute(name) {
						verifAssert(t.Type.AttributeType(name).Equals(lt.Type), "C09:dependent-body-as-data-attribute-type-is-the-declared-type")
					}
				}
			}
		}
		return
	}
	if as.BodyAsData && !as.DependentBodyAsData && bsch.Body != nil && as.AsTypeOf == nil {
		verifAssert(t.Type.IsObjectType(), "C09:body-as-data-target-is-an-object")
		if !t.Type.IsObjectType() {
			return
		}
		for name, asch := range bsch.Body.Attributes {
			verifAssert(t.Type.HasAttribute(name), "C09:body-as-data-type-has-every-schema-attribute")
			if lt, ok := asch.Constraint.(schema.LiteralType); ok && t.Type.HasAttribute(name) {
				verifAssert(t.Type.AttributeType(name).Equals(lt.Type), "C09:body-as-data-attribute-type-is-the-declared-type")
			}
		}
		for bt, nb := range bsch.Body.Blocks {
			verifAssert(t.Type.HasAttribute(bt), "C09:body-as-data-type-has-every-nested-block-type")
			if !t.Type.HasAttribute(bt) {
				continue
			}
			at := t.Type.AttributeType(bt)
			switch nb.Type {
			case schema.BlockTypeList:
				verifAssert(at.IsListType(), "C09:nested-list-block-is-a-list")
			case schema.BlockTypeSet:
				verifAssert(at.IsSetType(), "C09:nested-set-block-is-a-set")
			case schema.BlockTypeMap:
				verifAssert(at.IsMapType(), "C09:nested-map-block-is-a-map")
			case schema.BlockTypeObject:
				verifAssert(at.IsObjectType(), "C09:nested-object-block-is-an-object")
			}
		}
	}
}

// verifCheckBlockCollections: the target that stands for all nested blocks of one list/set/map type
// of a body-as-data block starts at the first such block, ends at the end of one of them, and
// covers nothing but blocks of that type (blank space aside).
func verifCheckBlockCollections(block *hclsyntax.Block, bsch *schema.BlockSchema, t reference.Target) {
	if bsch.Body == nil || block.Body == nil {
		return
	}
	for _, nt := range t.NestedTargets {
		if len(nt.Addr) != len(t.Addr)+1 || nt.RangePtr == nil || nt.DefRangePtr != nil {
			continue
		}
		as, ok := nt.Addr[len(nt.Addr)-1].(lang.AttrStep)
		if !ok {
			continue
		}
		nb, ok := bsch.Body.Blocks[as.Name]
		if !ok || nb.Type == schema.BlockTypeObject || nb.Type == schema.BlockTypeNil {
			continue
		}
		first := true
		endsAtBlock := false
		for _, b := range block.Body.Blocks {
			inside := verifAnd(nt.RangePtr.Start.Byte <= b.Range().Start.Byte, b.Range().End.Byte <= nt.RangePtr.End.Byte)
			if b.Type == as.Name {
				if first {
					verifAssert(nt.RangePtr.Start.Byte == b.Range().Start.Byte, "C09:block-collection-starts-at-its-first-block")
					first = false
				}
				if nt.RangePtr.End.Byte == b.Range().End.Byte {
					endsAtBlock = true
				}
			} else {
				verifAssert(verifNot(inside), "C09:block-collection-covers-only-its-own-blocks")
			}
		}
		if !first {
			verifAssert(endsAtBlock, "C09:block-collection-ends-at-one-of-its-blocks")
		}
		for _, a := range block.Body.Attributes {
			verifAssert(verifNot(verifAnd(nt.RangePtr.Start.Byte <= a.SrcRange.Start.Byte, a.SrcRange.End.Byte <= nt.RangePtr.End.Byte)), "C09:block-collection-covers-no-attribute")
		}
	}
}

// verifCheckElementTargets: the nested targets of a written collection are its elements: an object or
// map item under its written key (plain or quoted name) spans key to value with the key as
// definition; a list element under its source index spans the element expression. Recursive.
func verifCheckElementTargets(expr hclsyntax.Expression, t reference.Target) {
	switch e := expr.(type) {
	case *hclsyntax.ObjectConsExpr:
		for _, nt := range t.NestedTargets {
			if len(nt.Addr) != len(t.Addr)+1 {
				continue
			}
			key := ""
			switch s := nt.Addr[len(nt.Addr)-1].(type) {
			case lang.IndexStep:
				if s.Key.Type() != cty.String {
					continue
				}
				key = s.Key.AsString()
			case lang.AttrStep:
				key = s.Name
			default:
				continue
			}
			found := 0
			for _, it := range e.Items {
				name, ok := verifWrittenKey(it.KeyExpr)
				if !ok || name != key {
					continue
				}
				found++
				if nt.RangePtr != nil {
					verifAssert(verifAnd(nt.RangePtr.Start.Byte == it.KeyExpr.Range().Start.Byte, nt.RangePtr.End.Byte == it.ValueExpr.Range().End.Byte), "C09:item-target-spans-key-to-value")
				}
				if nt.DefRangePtr != nil {
					verifAssert(verifSameRange(*nt.DefRangePtr, it.KeyExpr.Range()), "C09:item-target-definition-is-the-written-key")
				}
				verifCheckElementTargets(it.ValueExpr, nt)
			}
			verifAssert(found >= 1, "C09:item-target-key-is-a-written-key")
		}
	case *hclsyntax.TupleConsExpr:
		for _, nt := range t.NestedTargets {
			if len(nt.Addr) != len(t.Addr)+1 {
				continue
			}
			s, ok := nt.Addr[len(nt.Addr)-1].(lang.IndexStep)
			if !ok || s.Key.Type() != cty.Number {
				continue
			}
			bf := s.Key.AsBigFloat()
			idx64, _ := bf.Int64()
			idx := int(idx64)
			verifAssert(idx >= 0 && idx < len(e.Exprs), "C09:element-index-is-a-written-position")
			if idx >= 0 && idx < len(e.Exprs) {
				if nt.RangePtr != nil {
					verifAssert(verifSameRange(*nt.RangePtr, e.Exprs[idx].Range()), "C09:element-target-spans-the-element-at-its-index")
				}
				verifCheckElementTargets(e.Exprs[idx], nt)
			}
		}
	}
}

// verifWrittenKey: the name an object key is written as (plain identifier or quoted literal)
func verifWrittenKey(k hclsyntax.Expression) (string, bool) {
	ke, ok := k.(*hclsyntax.ObjectConsKeyExpr)
	if !ok {
		return "", false
	}
	switch w := ke.Wrapped.(type) {
	case *hclsyntax.ScopeTraversalExpr:
		if len(w.Traversal) == 1 {
			return w.Traversal.RootName(), true
		}
	case *hclsyntax.TemplateExpr:
		if len(w.Parts) == 1 {
			if lv, ok := w.Parts[0].(*hclsyntax.LiteralValueExpr); ok && lv.Val.Type() == cty.String {
				return lv.Val.AsString(), true
			}
		}
	case *hclsyntax.LiteralValueExpr:
		// the keywords true, false and null written as keys are the strings of that spelling
		if v, _ := ke.Value(nil); v.IsWhollyKnown() && !v.IsNull() && v.Type() == cty.String {
			return v.AsString(), true
		}
	}
	return "", false
}

// verifCheckExprTargetType: the typed target of an attribute addressable by its expression type
// carries the type of the written value, for values without references (literals and collections
// of literals): evaluated by hcl itself.
func verifCheckExprTargetType(expr hclsyntax.Expression, t reference.Target) {
	if len(hclsyntax.Variables(expr)) > 0 {
		return
	}
	val, diags := expr.Value(nil)
	if diags.HasErrors() || !val.IsWhollyKnown() {
		return
	}
	verifAssert(t.Type.Equals(val.Type()), "C09:expression-typed-target-has-the-type-of-the-written-value")
}

// verifCheckTargets: ranges are real; a nested target extends its parent's address by exactly one
// step; sibling steps are pairwise different; numeric index steps follow the source order; a nested
// target of a written value lies inside its parent's range; DefRange lies inside Range.
func verifCheckTargets(ts reference.Targets, parent *reference.Target) {
	for k, t := range ts {
		if t.RangePtr != nil {
			verifAssert(verifRealRange(vf, *t.RangePtr), "C02:target-range")
		}
		if t.DefRangePtr != nil {
			verifAssert(verifRealRange(vf, *t.DefRangePtr), "C02:target-defrange")
			if t.RangePtr != nil {
				verifAssert(verifAnd(t.RangePtr.Start.Byte <= t.DefRangePtr.Start.Byte, t.DefRangePtr.End.Byte <= t.RangePtr.End.Byte), "C09:definition-inside-declaration")
			}
		}
		if parent != nil && parent.RangePtr != nil {
			verifAssert(t.RangePtr != nil, "C09:nested-target-of-a-located-target-is-located")
		}
		if parent != nil && len(parent.Addr) > 0 && len(t.Addr) > 0 {
			verifAssert(len(t.Addr) == len(parent.Addr)+1, "C09:nested-address-one-step-longer")
			if len(t.Addr) == len(parent.Addr)+1 {
				verifAssert(t.Addr.FirstSteps(uint(len(parent.Addr))).Equals(parent.Addr), "C09:nested-address-extends-parent")
			}
			last := t.Addr[len(t.Addr)-1].String()
			for j := 0; j < k; j++ {
				o := ts[j]
				if len(o.Addr) == len(t.Addr) {
					verifAssert(o.Addr[len(o.Addr)-1].String() != last || o.Type != t.Type, "C09:sibling-steps-distinct")
				}
			}
			// (a collection of nested blocks is no written value: its range is the first run of
			// adjacent blocks and it has no definition range; see verifCheckBlockCollections)
			if t.RangePtr != nil && parent.RangePtr != nil && parent.DefRangePtr != nil && parent.RangePtr.Filename == t.RangePtr.Filename {
				verifAssert(verifAnd(parent.RangePtr.Start.Byte <= t.RangePtr.Start.Byte, t.RangePtr.End.Byte <= parent.RangePtr.End.Byte), "C09:element-inside-its-value")
			}
			if is, ok := t.Addr[len(t.Addr)-1].(lang.IndexStep); ok && is.Key.Type() == cty.Number && t.RangePtr != nil {
				// list index = source order: an element with a smaller index starts earlier
				for j := 0; j < k; j++ {
					o := ts[j]
					if len(o.Addr) != len(t.Addr) || o.RangePtr == nil {
						continue
					}
					if js, ok := o.Addr[len(o.Addr)-1].(lang.IndexStep); ok && js.Key.Type() == cty.Number {
						if js.Key.LessThan(is.Key).True() {
							verifAssert(o.RangePtr.Start.Byte <= t.RangePtr.Start.Byte, "C09:list-index-is-source-order")
						}
					}
				}
			}
		}
		tt := t
		verifCheckTargets(t.NestedTargets, &tt)
	}
}

func VerifP_C01C02C04C05C10_Origins_N() int            { return len(verifSeedList()) }
func VerifP_C01C02C04C05C10_Origins_Name(i int) string { return verifSeedList()[i].name }
func VerifP_C01C02C04C05C10_Origins(i int) {
	d, _, s := verifSeedDecoderFresh(i)
	verifFreeze(d.pathCtx)
	verifQuery(func() {
		os, err := d.CollectReferenceOrigins()
		if err == nil {
			for k, o := range os {
				verifAssert(verifRealRange(vf, o.OriginRange()), "C02:origin-range")
				if k > 0 {
					verifAssert(os[k-1].OriginRange().Start.Byte <= o.OriginRange().Start.Byte, "C10:origins-ordered")
				}
			}
			if !verifSeedHasOneOf(s) {
				body := d.pathCtx.Files[vf].Body.(*hclsyntax.Body)
				want := verifExpectedOrigins(body, verifOracleSchema(i))
				got := 0
				for _, o := range os {
					if _, ok := o.(reference.LocalOrigin); ok {
						got++
					}
				}
				if !verifSeedHasForExpr(s) {
					verifAssert(got == len(want), "C10:one-origin-per-written-reference")
				}
				for _, w := range want {
					found := false
					for _, o := range os {
						lo, ok := o.(reference.LocalOrigin)
						if ok && lo.Addr.String() == w.addr {
							found = verifOr(found, verifAnd(lo.Range.Start.Byte == w.rng.Start.Byte, lo.Range.End.Byte == w.rng.End.Byte))
						}
					}
					verifAssert(found, "C10:written-reference-collected-with-its-range")
				}
			}
		}
	})
	verifNoWrites("C04:origins-writes", true)
	verifNoWrites("C05:origins-writes", false)
	verifReach("end")
}

type verifWantOrigin struct {
	addr string
	rng  hcl.Range
}

// a for expression's iterator variable is collected as an origin by the decoder but is not a free
// variable for hclsyntax.Variables; the property does not say which reading is right, so the count
// is not compared on such seeds (inclusion still is)
func verifSeedHasForExpr(s verifSeed) bool {
	// a for expression: its iterator variables are references to hcl but not declarations the
	// property speaks about; the count is not compared there (every expected origin still must exist)
	return strings.Contains(s.src, "for ") && strings.Contains(s.src, " in ")
}

func verifSeedHasOneOf(s verifSeed) bool {
	return s.name == "one" // the OneOf attribute: the admitted forms are a union, not modelled by the oracle
}

// verifExpectedOrigins: the references written at places where the attribute's constraint admits a
// reference or an arbitrary expression (computed with hclsyntax.Variables, independently of the collector).
func verifExpectedOrigins(body *hclsyntax.Body, bs *schema.BodySchema) []verifWantOrigin {
	var out []verifWantOrigin
	if bs == nil {
		return out
	}
	selfOK := bs.Extensions != nil && bs.Extensions.SelfRefs
	for name, attr := range body.Attributes {
		as, ok := bs.Attributes[name]
		if !ok {
			if bs.Extensions != nil && bs.Extensions.Count && name == "count" {
				as = schemahelper.CountAttributeSchema()
			} else if bs.Extensions != nil && bs.Extensions.ForEach && name == "for_each" {
				as = schemahelper.ForEachAttributeSchema()
			} else if bs.AnyAttribute != nil {
				as = bs.AnyAttribute
			} else {
				continue
			}
		}
		out = append(out, verifRefsUnder(attr.Expr, as.Constraint, selfOK)...)
	}
	for _, block := range body.Blocks {
		bsch, ok := bs.Blocks[block.Type]
		if !ok || block.Body == nil {
			continue
		}
		merged, _ := schemahelper.MergeBlockBodySchemas(block.AsHCLBlock(), bsch)
		out = append(out, verifExpectedOrigins(block.Body, merged)...)
	}
	return out
}

func verifRefsUnder(expr hclsyntax.Expression, cons schema.Constraint, selfOK bool) []verifWantOrigin {
	var out []verifWantOrigin
	add := func(e hclsyntax.Expression) {
		for _, tr := range hclsyntax.Variables(e) {
			if tr.RootName() == "self" && !selfOK {
				continue
			}
			addr, err := lang.TraversalToAddress(tr)
			if err != nil {
				continue
			}
			out = append(out, verifWantOrigin{addr: addr.String(), rng: tr.SourceRange()})
		}
	}
	// a parenthesised key of a map or object item is an arbitrary (string) expression where the
	// constraint allows interpolated keys, and a place reserved for a literal where it does not
	addParenKey := func(k hclsyntax.Expression) {
		if ke, ok := k.(*hclsyntax.ObjectConsKeyExpr); ok {
			if p, ok := ke.Wrapped.(*hclsyntax.ParenthesesExpr); ok {
				add(p)
			}
		}
	}
	switch c := cons.(type) {
	case schema.OneOf:
		// the admitted forms are a union: a reference admitted by any member counts once
		seen := map[string]bool{}
		for _, m := range c {
			for _, w := range verifRefsUnder(expr, m, selfOK) {
				k := w.addr + "@" + stringPos(w.rng.Start)
				if !seen[k] {
					seen[k] = true
					out = append(out, w)
				}
			}
		}
	case schema.AnyExpression:
		add(expr)
	case schema.Reference:
		if _, ok := expr.(*hclsyntax.ScopeTraversalExpr); ok {
			add(expr)
		}
	case schema.List:
		if t, ok := expr.(*hclsyntax.TupleConsExpr); ok {
			for _, e := range t.Exprs {
				out = append(out, verifRefsUnder(e, c.Elem, selfOK)...)
			}
		}
	case schema.Set:
		if t, ok := expr.(*hclsyntax.TupleConsExpr); ok {
			for _, e := range t.Exprs {
				out = append(out, verifRefsUnder(e, c.Elem, selfOK)...)
			}
		}
	case schema.Tuple:
		if t, ok := expr.(*hclsyntax.TupleConsExpr); ok {
			for k, e := range t.Exprs {
				if k < len(c.Elems) {
					out = append(out, verifRefsUnder(e, c.Elems[k], selfOK)...)
				}
			}
		}
	case schema.Map:
		if o, ok := expr.(*hclsyntax.ObjectConsExpr); ok {
			for _, it := range o.Items {
				if c.AllowInterpolatedKeys {
					addParenKey(it.KeyExpr)
				}
				out = append(out, verifRefsUnder(it.ValueExpr, c.Elem, selfOK)...)
			}
		}
	case schema.Object:
		if o, ok := expr.(*hclsyntax.ObjectConsExpr); ok {
			for _, it := range o.Items {
				if c.AllowInterpolatedKeys {
					addParenKey(it.KeyExpr)
				}
				key, found := verifWrittenKey(it.KeyExpr)
				if !found {
					continue
				}
				if as, ok := c.Attributes[key]; ok {
					out = append(out, verifRefsUnder(it.ValueExpr, as.Constraint, selfOK)...)
				}
			}
		}
	}
	return out
}

func VerifP_C01C02C04C05C20_Signature_N() int            { return len(verifSeedList()) }
func VerifP_C01C02C04C05C20_Signature_Name(i int) string { return verifSeedList()[i].name }
func VerifP_C01C02C04C05C20_Signature(i int) {
	d, _ := verifSeedDecoder(i)
	pos := verifAnyPos(vf)
	verifFreeze(d.pathCtx)
	verifQuery(func() {
		sig, err := d.SignatureAtPos(vf, pos)
		if err == nil && sig != nil {
			verifAssert(int(sig.ActiveParameter) < len(sig.Parameters) || len(sig.Parameters) == 0, "C20:active-parameter-valid"+verifCursorTag())
		}
		if err == nil {
			verifCheckSignatureShape(d, sig)
			verifCheckSignature(d, pos, sig)
		}
	})
	verifNoWrites("C04:signature-writes", true)
	verifNoWrites("C05:signature-writes", false)
	verifReach("end")
}

// verifCheckSelfCandidates: block-local self.* names are offered only in bodies that enable them:
// with the cursor directly inside a nested block of a top-level block whose own (static or selected
// dependent) schema does not enable self references, no candidate is a self.* reference.
func verifCheckSelfCandidates(d *PathDecoder, bs *schema.BodySchema, pos hcl.Pos, cs lang.Candidates) {
	body, ok := d.pathCtx.Files[vf].Body.(*hclsyntax.Body)
	if !ok || bs == nil {
		return
	}
	for _, block := range body.Blocks {
		bsch, ok := bs.Blocks[block.Type]
		if !ok || block.Body == nil {
			continue
		}
		eff := verifSpecEffectiveNoDynamic(block, bsch)
		if eff == nil {
			continue
		}
		for _, nb := range block.Body.Blocks {
			if nb.Body == nil || !verifAnd(nb.OpenBraceRange.End.Byte <= pos.Byte, pos.Byte <= nb.CloseBraceRange.Start.Byte) {
				continue
			}
			nsch, ok := eff.Blocks[nb.Type]
			if !ok || nsch.Body == nil {
				return
			}
			if nsch.Body.Extensions != nil && nsch.Body.Extensions.SelfRefs {
				return
			}
			for _, c := range cs.List {
				verifAssert(!strings.HasPrefix(c.Label, "self.") && c.Label != "self", "C08:self-references-only-where-the-body-enables-them"+verifCursorTag())
			}
			return
		}
	}
}

// verifCheckFunctionCandidates: inside the value of a top-level attribute constrained by
// AnyExpression of a type, every function candidate is a known function whose return type converts
// to that type (decided by cty's own conversion on an unknown value of the return type).
func verifCheckFunctionCandidates(d *PathDecoder, pos hcl.Pos, cs lang.Candidates) {
	body, ok := d.pathCtx.Files[vf].Body.(*hclsyntax.Body)
	if !ok || d.pathCtx.Schema == nil {
		return
	}
	for name, attr := range body.Attributes {
		as, ok := d.pathCtx.Schema.Attributes[name]
		if !ok {
			continue
		}
		ae, ok := as.Constraint.(schema.AnyExpression)
		if !ok || ae.OfType == cty.DynamicPseudoType || ae.OfType == cty.NilType {
			continue
		}
		// only where the whole value is being typed: a half-typed name or nothing yet (inside a
		// call, a collection or a template the expected type is that of the part under the cursor)
		if st, isName := attr.Expr.(*hclsyntax.ScopeTraversalExpr); isName {
			if len(st.Traversal) != 1 {
				continue
			}
		} else if attr.Expr.Range().Start.Byte != attr.Expr.Range().End.Byte {
			continue
		}
		if !verifAnd(attr.EqualsRange.End.Byte <= pos.Byte, pos.Byte <= attr.SrcRange.End.Byte) {
			continue
		}
		for _, c := range cs.List {
			if c.Kind != lang.FunctionCandidateKind {
				continue
			}
			f, known := d.pathCtx.Functions[c.Label]
			verifAssert(known, "C08:function-candidate-is-a-known-function")
			if known {
				_, err := convert.Convert(cty.UnknownVal(f.ReturnType), ae.OfType)
				verifAssert(err == nil, "C08:function-candidate-return-type-converts-to-the-expected-type["+c.Label+"]"+verifCursorTag())
			}
		}
	}
}

// verifCheckUnaryOperandCandidates: with the cursor in the half-typed operand of a unary operator
// that is the whole value of a top-level attribute (`a = !v`, `a = -va`), the expected type is the
// operator's operand type (bool for `!`, number for `-`), whatever the attribute expects: every
// function candidate's return type converts to it, and every reference candidate's declaration
// fits it (or is of unknown/dynamic type, or contains a nested declaration).
func verifCheckUnaryOperandCandidates(d *PathDecoder, pos hcl.Pos, cs lang.Candidates) {
	body, ok := d.pathCtx.Files[vf].Body.(*hclsyntax.Body)
	if !ok || d.pathCtx.Schema == nil {
		return
	}
	at := verifCursorTag()
	for name, attr := range body.Attributes {
		as, ok := d.pathCtx.Schema.Attributes[name]
		if !ok {
			continue
		}
		if _, isAny := as.Constraint.(schema.AnyExpression); !isAny {
			continue
		}
		un, ok := attr.Expr.(*hclsyntax.UnaryOpExpr)
		if !ok || un.Op == nil {
			continue
		}
		st, ok := un.Val.(*hclsyntax.ScopeTraversalExpr)
		if !ok || len(st.Traversal) != 1 {
			continue
		}
		if !verifAnd(st.Range().Start.Byte < pos.Byte, pos.Byte <= st.Range().End.Byte) {
			continue
		}
		// (the operator is told by what it yields: `!` yields bool, `-` a number; no pointer identity)
		want := un.Op.Type
		if want != cty.Bool && want != cty.Number {
			continue
		}
		for _, c := range cs.List {
			switch c.Kind {
			case lang.FunctionCandidateKind:
				if f, known := d.pathCtx.Functions[c.Label]; known {
					_, err := convert.Convert(cty.UnknownVal(f.ReturnType), want)
					verifAssert(err == nil, "C08:function-candidate-in-a-unary-operand-converts-to-the-operand-type["+c.Label+"]"+at)
				}
			case lang.ReferenceCandidateKind:
				for _, t := range d.pathCtx.ReferenceTargets {
					if t.Addr.String() != c.Label || len(t.NestedTargets) > 0 {
						continue
					}
					if t.Type == cty.NilType || t.Type == cty.DynamicPseudoType {
						continue
					}
					_, err := convert.Convert(cty.UnknownVal(t.Type), want)
					verifAssert(err == nil, "C08:reference-candidate-in-a-unary-operand-fits-the-operand-type["+c.Label+"]"+at)
				}
			}
		}
	}
}

// verifCheckArgCandidates: with the cursor in blank space inside the parentheses of a known call
// (no token touches the cursor, so nothing is typed yet), the boolean literals are offered exactly
// when the parameter of the argument slot under the cursor - counted in commas, as for signature
// help - is of type bool (or dynamic).
func verifCheckArgCandidates(d *PathDecoder, pos hcl.Pos, cs lang.Candidates) {
	body, ok := d.pathCtx.Files[vf].Body.(*hclsyntax.Body)
	if !ok {
		return
	}
	var inner *hclsyntax.FunctionCallExpr
	hclsyntax.VisitAll(body, func(node hclsyntax.Node) hcl.Diagnostics {
		call, ok := node.(*hclsyntax.FunctionCallExpr)
		if !ok {
			return nil
		}
		if _, known := d.pathCtx.Functions[call.Name]; !known || call.CloseParenRange.End.Byte == 0 {
			return nil
		}
		if call.OpenParenRange.End.Byte <= pos.Byte && pos.Byte <= call.CloseParenRange.Start.Byte {
			inner = call
		}
		return nil
	})
	if inner == nil {
		return
	}
	tokens, _ := hclsyntax.LexConfig(d.pathCtx.Files[vf].Bytes, vf, hcl.InitialPos)
	commas, depth := 0, 0
	slotEmpty := false
	for _, t := range tokens {
		if t.Type != hclsyntax.TokenNewline && t.Type != hclsyntax.TokenEOF && verifAnd(t.Range.Start.Byte <= pos.Byte, pos.Byte <= t.Range.End.Byte) {
			return // something is typed at the cursor
		}
		if t.Range.End.Byte <= pos.Byte && t.Type != hclsyntax.TokenNewline && t.Type != hclsyntax.TokenComment {
			slotEmpty = t.Type == hclsyntax.TokenComma || (t.Type == hclsyntax.TokenOParen && t.Range.End.Byte == inner.OpenParenRange.End.Byte)
		}
		if t.Range.Start.Byte < inner.OpenParenRange.End.Byte || t.Range.End.Byte > pos.Byte {
			continue
		}
		switch t.Type {
		case hclsyntax.TokenOParen, hclsyntax.TokenOBrack, hclsyntax.TokenOBrace, hclsyntax.TokenTemplateInterp, hclsyntax.TokenTemplateControl:
			depth++
		case hclsyntax.TokenCParen, hclsyntax.TokenCBrack, hclsyntax.TokenCBrace, hclsyntax.TokenTemplateSeqEnd:
			depth--
		case hclsyntax.TokenComma:
			if depth == 0 {
				commas++
			}
		}
	}
	if depth != 0 || !slotEmpty {
		return // inside a nested bracket of an argument, or behind an argument already written in this slot
	}
	f := d.pathCtx.Functions[inner.Name]
	var pt cty.Type
	if commas < len(f.Params) {
		pt = f.Params[commas].Type
	} else if f.VarParam != nil {
		pt = f.VarParam.Type
	} else {
		return
	}
	hasTrue := false
	for _, c := range cs.List {
		if c.Label == "true" && c.Kind == lang.BoolCandidateKind {
			hasTrue = true
		}
	}
	at := verifCursorTag()
	if pt == cty.Bool {
		verifAssert(hasTrue, "C08:boolean-literal-offered-for-a-bool-parameter"+at)
	} else if pt != cty.DynamicPseudoType {
		verifAssert(!hasTrue, "C08:boolean-literal-only-where-the-parameter-admits-it"+at)
	}
}

// verifCheckSignature: the oracle counts, in the token list, the top-level commas of the innermost
// known call between its opening parenthesis and the cursor.
// verifCheckSignatureShape: wherever a signature is reported, it is that of a known function and
// its parameter list is that function's fixed parameters followed by the variadic one, by name.
func verifCheckSignatureShape(d *PathDecoder, sig *lang.FunctionSignature) {
	if sig == nil {
		return
	}
	at := verifCursorTag()
	k := strings.Index(sig.Name, "(")
	verifAssert(k > 0, "C20:signature-name-has-a-parameter-list"+at)
	if k <= 0 {
		return
	}
	f, known := d.pathCtx.Functions[sig.Name[:k]]
	verifAssert(known, "C20:signature-names-a-known-function"+at)
	if !known {
		return
	}
	n := len(f.Params)
	if f.VarParam != nil {
		n++
	}
	verifAssert(len(sig.Parameters) == n, "C20:parameters-fixed-then-variadic"+at)
	for i, p := range f.Params {
		if i < len(sig.Parameters) {
			verifAssert(sig.Parameters[i].Name == p.Name, "C20:signature-parameters-are-the-function's-own"+at)
		}
	}
	if f.VarParam != nil && n-1 < len(sig.Parameters) {
		verifAssert(sig.Parameters[n-1].Name == f.VarParam.Name, "C20:signature-parameters-are-the-function's-own"+at)
	}
}

func verifCheckSignature(d *PathDecoder, pos hcl.Pos, sig *lang.FunctionSignature) {
	body := d.pathCtx.Files[vf].Body.(*hclsyntax.Body)
	var inner *hclsyntax.FunctionCallExpr
	boundary := false
	hclsyntax.VisitAll(body, func(node hclsyntax.Node) hcl.Diagnostics {
		call, ok := node.(*hclsyntax.FunctionCallExpr)
		if !ok {
			return nil
		}
		if _, known := d.pathCtx.Functions[call.Name]; !known {
			return nil
		}
		if call.CloseParenRange.End.Byte == 0 {
			return nil // unterminated call: the parser gives no closing parenthesis (F11)
		}
		// strictly inside the parentheses
		if call.OpenParenRange.End.Byte <= pos.Byte && pos.Byte <= call.CloseParenRange.Start.Byte {
			inner = call // VisitAll goes from outer to inner nodes
		}
		// a parameterless function: anywhere on the call (strictly inside its extent)
		if fs := d.pathCtx.Functions[call.Name]; len(fs.Params) == 0 && fs.VarParam == nil {
			if call.NameRange.Start.Byte < pos.Byte && pos.Byte < call.CloseParenRange.End.Byte {
				inner = call
			}
			// directly in front of the name: whether that is "on the call" is not settled
			if call.NameRange.Start.Byte == pos.Byte {
				boundary = true
			}
		}
		// directly in front of an opening parenthesis the decoder already reports that call;
		// whether that position is "inside the parentheses" is not settled by the property
		if call.OpenParenRange.Start.Byte == pos.Byte {
			boundary = true
		}
		return nil
	})
	if inner == nil || boundary {
		return
	}
	f := d.pathCtx.Functions[inner.Name]
	params := len(f.Params)
	if f.VarParam != nil {
		params++
	}
	if params == 0 {
		verifAssert(sig != nil, "C20:signature-inside-known-call"+verifCursorTag())
		if sig != nil {
			verifAssert(strings.HasPrefix(sig.Name, inner.Name+"("), "C20:signature-of-the-innermost-call"+verifCursorTag())
		}
		return
	}
	tokens, _ := hclsyntax.LexConfig(d.pathCtx.Files[vf].Bytes, vf, hcl.InitialPos)
	commas, depth := 0, 0
	for _, t := range tokens {
		if t.Range.Start.Byte < inner.OpenParenRange.End.Byte || t.Range.End.Byte > pos.Byte {
			continue
		}
		switch t.Type {
		case hclsyntax.TokenOParen, hclsyntax.TokenOBrack, hclsyntax.TokenOBrace, hclsyntax.TokenTemplateInterp, hclsyntax.TokenTemplateControl:
			depth++
		case hclsyntax.TokenCParen, hclsyntax.TokenCBrack, hclsyntax.TokenCBrace, hclsyntax.TokenTemplateSeqEnd:
			depth--
		case hclsyntax.TokenComma:
			if depth == 0 {
				commas++
			}
		}
	}
	if commas >= params && f.VarParam == nil {
		// more arguments than parameters and no variadic one: no signature of this call
		if sig != nil {
			verifAssert(!strings.HasPrefix(sig.Name, inner.Name+"("), "C20:none-for-surplus-argument"+verifCursorTag())
		}
		return
	}
	want := commas
	if want >= params {
		want = params - 1
	}
	verifAssert(sig != nil, "C20:signature-inside-known-call"+verifCursorTag())
	if sig != nil {
		verifAssert(strings.HasPrefix(sig.Name, inner.Name+"("), "C20:signature-of-innermost-known-call"+verifCursorTag())
		verifAssert(len(sig.Parameters) == params, "C20:parameters-fixed-then-variadic"+verifCursorTag())
		verifAssert(int(sig.ActiveParameter) == want, "C20:active-parameter-is-argument-slot-under-cursor"+verifCursorTag())
	}
}

func VerifP_C01C02C04C05C16_Links_N() int            { return len(verifSeedList()) }
func VerifP_C01C02C04C05C16_Links_Name(i int) string { return verifSeedList()[i].name }
func VerifP_C01C02C04C05C16_Links(i int) {
	d, _, _ := verifSeedDecoderFresh(i)
	// what a body offers right inside the first block, asked first thing on the fresh schema ...
	var probe hcl.Pos
	haveProbe := false
	if body, ok := d.pathCtx.Files[vf].Body.(*hclsyntax.Body); ok && len(body.Blocks) > 0 && body.Blocks[0].OpenBraceRange.End.Byte > body.Blocks[0].OpenBraceRange.Start.Byte {
		probe, haveProbe = body.Blocks[0].OpenBraceRange.End, true
	}
	var before lang.Candidates
	var beforeErr error
	if haveProbe {
		before, beforeErr = d.CompletionAtPos(context.Background(), vf, probe)
	}
	defer func() {
		// ... and again after the other queries of this harness: the schema in force did not change
		if haveProbe {
			after, afterErr := d.CompletionAtPos(context.Background(), vf, probe)
			verifAssert((beforeErr == nil) == (afterErr == nil), "C16:same-schema-in-force-before-and-after-other-queries")
			verifAssert(len(before.List) == len(after.List), "C16:same-schema-in-force-before-and-after-other-queries")
			for k := range before.List {
				if k < len(after.List) {
					verifAssert(before.List[k].Label == after.List[k].Label, "C16:same-schema-in-force-before-and-after-other-queries")
				}
			}
		}
	}()
	verifFreeze(d.pathCtx)
	verifQuery(func() {
		links, err := d.LinksInFile(vf)
		if err == nil {
			for _, l := range links {
				verifAssert(verifRealRange(vf, l.Range), "C02:link-range")
			}
			if body, ok := d.pathCtx.Files[vf].Body.(*hclsyntax.Body); ok {
				verifCheckLinks(body, verifOracleSchema(i), links)
			}
		}
	})
	verifNoWrites("C04:links-writes", true)
	verifNoWrites("C05:links-writes", false)
	verifReach("end")
}
