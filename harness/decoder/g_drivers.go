package decoder

import (
	"context"
	"strings"

	"github.com/hashicorp/hcl-lang/decoder/internal/schemahelper"
	"github.com/hashicorp/hcl-lang/lang"
	"github.com/hashicorp/hcl-lang/reference"
	"github.com/hashicorp/hcl-lang/schema"
	"github.com/hashicorp/hcl/v2"
	"github.com/hashicorp/hcl/v2/hclsyntax"
	"github.com/zclconf/go-cty/cty"
)

const vf = "test.tf"

// verifSeedDecoder: a real Decoder/PathDecoder over the stretched seed.
var _ = verifSeedDecoder

func verifSeedDecoder(i int) (*PathDecoder, verifSeed) {
	s := verifSeedList()[i]
	D := verifBound("D", 2, 6)
	f := verifStretch(s.src, vf, D, 0)
	pc := &PathContext{
		Schema:           verifSchemas(s.schema),
		Files:            map[string]*hcl.File{vf: f},
		Functions:        verifFunctions(),
		ReferenceTargets: verifTargets(),
		Validators:       verifValidators(),
	}
	d := NewDecoder(&verifPathReader{paths: map[string]*PathContext{"dir": pc}})
	d.SetContext(NewDecoderContext())
	pd, err := d.Path(lang.Path{Path: "dir"})
	if err != nil {
		panic(err)
	}
	// as a language server does: collect the origins of the path once and keep them in the context
	if origins, err := pd.CollectReferenceOrigins(); err == nil {
		pc.ReferenceOrigins = origins
	}
	return pd, s
}

func VerifP_C01C02C04C05C12_Hover_N() int { return len(verifSeedList()) }
func VerifP_C01C02C04C05C12_Hover_Name(i int) string { return verifSeedList()[i].name }
func VerifP_C01C02C04C05C12_Hover(i int) {
	d, _ := verifSeedDecoder(i)
	pos := verifAnyPos(vf)
	verifFreeze(d.pathCtx)
	verifQuery(func() {
		hd, err := d.HoverAtPos(context.Background(), vf, pos)
		if err == nil && hd != nil {
			verifAssert(hd.Content.Value != "", "C12:content-nonempty")
			verifAssert(verifRealRange(vf, hd.Range), "C02:hover-range"+verifCursorTag())
			verifAssert(verifAnd(hd.Range.Start.Byte <= pos.Byte, pos.Byte <= hd.Range.End.Byte), "C12:range-contains-cursor"+verifCursorTag())
			verifAssert(verifOr(pos.Byte < hd.Range.End.Byte, hd.Range.Start.Byte == hd.Range.End.Byte), "C12:range-contains-cursor-half-open"+verifCursorTag())
		}
	})
	verifNoWrites("C04:hover-writes", true)
	verifNoWrites("C05:hover-writes", false)
	verifReach("end")
}

func VerifP_C01C02C04C05C06_Completion_N() int { return len(verifSeedList()) }
func VerifP_C01C02C04C05C06_Completion_Name(i int) string { return verifSeedList()[i].name }
func VerifP_C01C02C04C05C06_Completion(i int) {
	d, _ := verifSeedDecoder(i)
	pos := verifAnyPos(vf)
	verifFreeze(d.pathCtx)
	verifQuery(func() {
		cs, err := d.CompletionAtPos(context.Background(), vf, pos)
		if err == nil {
			gCheckCandidates(cs, pos)
		}
	})
	verifNoWrites("C04:completion-writes", true)
	verifNoWrites("C05:completion-writes", false)
	verifReach("end")
}

// verifStructuralTokens: the oracle for attribute-name, block-type and label
// tokens, computed from the (stretched) syntax tree and the effective schema.
func verifStructuralTokens(body *hclsyntax.Body, bs *schema.BodySchema, parent lang.SemanticTokenModifiers) []lang.SemanticToken {
	var out []lang.SemanticToken
	if bs == nil {
		return out
	}
	join := func(a lang.SemanticTokenModifiers, more ...lang.SemanticTokenModifiers) lang.SemanticTokenModifiers {
		r := lang.SemanticTokenModifiers{}
		r = append(r, a...)
		for _, m := range more {
			r = append(r, m...)
		}
		return r
	}
	for name, attr := range body.Attributes {
		as, ok := bs.Attributes[name]
		if !ok {
			if bs.Extensions != nil && bs.Extensions.Count && name == "count" {
				as = schemahelper.CountAttributeSchema()
			} else if bs.Extensions != nil && bs.Extensions.ForEach && name == "for_each" {
				as = schemahelper.ForEachAttributeSchema()
			} else if bs.AnyAttribute != nil {
				as = bs.AnyAttribute
			} else {
				continue
			}
		}
		out = append(out, lang.SemanticToken{Type: lang.TokenAttrName, Modifiers: join(parent, as.SemanticTokenModifiers), Range: attr.NameRange})
	}
	for _, block := range body.Blocks {
		bsch, ok := bs.Blocks[block.Type]
		if !ok {
			continue
		}
		bm := join(parent, bsch.SemanticTokenModifiers)
		out = append(out, lang.SemanticToken{Type: lang.TokenBlockType, Modifiers: bm, Range: block.TypeRange})
		for i, lr := range block.LabelRanges {
			if i < len(bsch.Labels) {
				out = append(out, lang.SemanticToken{Type: lang.TokenBlockLabel, Modifiers: join(bm, bsch.Labels[i].SemanticTokenModifiers), Range: lr})
			}
		}
		if block.Body != nil {
			merged, _ := schemahelper.MergeBlockBodySchemas(block.AsHCLBlock(), bsch)
			out = append(out, verifStructuralTokens(block.Body, merged, bm)...)
		}
	}
	return out
}

func verifAllExprRanges(body *hclsyntax.Body) []hcl.Range {
	var out []hcl.Range
	for _, a := range body.Attributes {
		out = append(out, a.Expr.Range())
	}
	for _, b := range body.Blocks {
		if b.Body != nil {
			out = append(out, verifAllExprRanges(b.Body)...)
		}
	}
	return out
}

func verifSameModifiers(a, b lang.SemanticTokenModifiers) bool {
	if len(a) != len(b) {
		return false
	}
	for i := range a {
		if a[i] != b[i] {
			return false
		}
	}
	return true
}

func VerifP_C01C02C04C05C13_SemTok_N() int { return len(verifSeedList()) }
func VerifP_C01C02C04C05C13_SemTok_Name(i int) string { return verifSeedList()[i].name }
func VerifP_C01C02C04C05C13_SemTok(i int) {
	d, _ := verifSeedDecoder(i)
	verifFreeze(d.pathCtx)
	verifQuery(func() {
		toks, err := d.SemanticTokensInFile(context.Background(), vf)
		if err == nil {
			for k, t := range toks {
				verifAssert(verifRealRange(vf, t.Range), "C02:token-range")
				verifAssert(t.Range.Start.Byte < t.Range.End.Byte, "C13:token-nonempty")
				if k > 0 {
					verifAssert(toks[k-1].Range.End.Byte <= t.Range.Start.Byte, "C13:tokens-ordered-disjoint")
				}
				known := false
				for _, st := range lang.SupportedSemanticTokenTypes {
					if st == t.Type {
						known = true
					}
				}
				verifAssert(known, "C13:token-type-advertised")
			}
			// exactness of the structural tokens against the oracle
			body := d.pathCtx.Files[vf].Body.(*hclsyntax.Body)
			want := verifStructuralTokens(body, d.pathCtx.Schema, lang.SemanticTokenModifiers{})
			exprs := verifAllExprRanges(body)
			for _, t := range toks {
				if t.Type == lang.TokenAttrName || t.Type == lang.TokenBlockType || t.Type == lang.TokenBlockLabel {
					// either one of the schema-known structural elements, or part of a value (type declarations mark object attribute names)
					ok := false
					for _, w := range want {
						if w.Type == t.Type {
							ok = verifOr(ok, verifAnd(t.Range.Start.Byte == w.Range.Start.Byte, t.Range.End.Byte == w.Range.End.Byte))
						}
					}
					for _, e := range exprs {
						ok = verifOr(ok, verifAnd(e.Start.Byte <= t.Range.Start.Byte, t.Range.End.Byte <= e.End.Byte))
					}
					verifAssert(ok, "C13:no-structural-token-for-unknown-elements")
				}
			}
			for _, w := range want {
				found := false
				for _, t := range toks {
					if t.Type == w.Type && verifSameModifiers(t.Modifiers, w.Modifiers) {
						found = verifOr(found, verifAnd(t.Range.Start.Byte == w.Range.Start.Byte, t.Range.End.Byte == w.Range.End.Byte))
					}
				}
				verifAssert(found, "C13:structural-token-with-inherited-modifiers-present")
			}
		}
	})
	verifNoWrites("C04:semtok-writes", true)
	verifNoWrites("C05:semtok-writes", false)
	verifReach("end")
}

func verifCheckSymbols(syms []Symbol, parent *hcl.Range) {
	for _, s := range syms {
		r := s.Range()
		verifAssert(verifRealRange(vf, r), "C02:symbol-range")
		if parent != nil {
			verifAssert(verifAnd(parent.Start.Byte <= r.Start.Byte, r.End.Byte <= parent.End.Byte), "C14:child-inside-parent")
		}
		verifAssert(s.Name() != "", "C14:symbol-name-nonempty")
		verifCheckSymbols(s.NestedSymbols(), &r)
	}
}

func VerifP_C01C02C04C05C14_Symbols_N() int { return len(verifSeedList()) }
func VerifP_C01C02C04C05C14_Symbols_Name(i int) string { return verifSeedList()[i].name }
func VerifP_C01C02C04C05C14_Symbols(i int) {
	d, _ := verifSeedDecoder(i)
	verifFreeze(d.pathCtx)
	verifQuery(func() {
		syms, err := d.SymbolsInFile(vf)
		if err == nil {
			verifCheckSymbols(syms, nil)
			for k := 1; k < len(syms); k++ {
				verifAssert(syms[k-1].Range().Start.Byte <= syms[k].Range().Start.Byte, "C14:source-order")
			}
			// one symbol per attribute and block written at the top level, named after it
			body := d.pathCtx.Files[vf].Body.(*hclsyntax.Body)
			verifAssert(len(syms) == len(body.Attributes)+len(body.Blocks), "C14:one-symbol-per-item")
			for name, a := range body.Attributes {
				found := false
				for _, sy := range syms {
					if sy.Name() == name {
						found = verifOr(found, verifAnd(sy.Range().Start.Byte == a.SrcRange.Start.Byte, sy.Range().End.Byte == a.SrcRange.End.Byte))
					}
				}
				verifAssert(found, "C14:attribute-symbol-with-its-extent")
			}
			for _, b := range body.Blocks {
				want := b.Type
				for _, l := range b.Labels {
					want += " \"" + l + "\""
				}
				found := false
				for _, sy := range syms {
					if sy.Name() == want {
						found = verifOr(found, verifAnd(sy.Range().Start.Byte == b.Range().Start.Byte, sy.Range().End.Byte == b.Range().End.Byte))
					}
				}
				verifAssert(found, "C14:block-symbol-with-its-extent")
			}
		}
	})
	verifNoWrites("C04:symbols-writes", true)
	verifNoWrites("C05:symbols-writes", false)
	verifReach("end")
}

func VerifP_C01C02C04C05C15_Validate_N() int { return len(verifSeedList()) }
func VerifP_C01C02C04C05C15_Validate_Name(i int) string { return verifSeedList()[i].name }
func VerifP_C01C02C04C05C15_Validate(i int) {
	d, _ := verifSeedDecoder(i)
	verifFreeze(d.pathCtx)
	verifQuery(func() {
		diags, err := d.ValidateFile(context.Background(), vf)
		if err == nil {
			for _, dg := range diags {
				if dg.Subject != nil {
					verifAssert(verifRealRange(vf, *dg.Subject), "C02:diagnostic-subject")
				}
			}
		}
	})
	verifNoWrites("C04:validate-writes", true)
	verifNoWrites("C05:validate-writes", false)
	verifReach("end")
}

func VerifP_C01C02C04C05C09_Targets_N() int { return len(verifSeedList()) }
func VerifP_C01C02C04C05C09_Targets_Name(i int) string { return verifSeedList()[i].name }
func VerifP_C01C02C04C05C09_Targets(i int) {
	d, _ := verifSeedDecoder(i)
	verifFreeze(d.pathCtx)
	verifQuery(func() {
		ts, err := d.CollectReferenceTargets()
		if err == nil {
			verifCheckTargets(ts, nil)
		}
	})
	verifNoWrites("C04:targets-writes", true)
	verifNoWrites("C05:targets-writes", false)
	verifReach("end")
}

// verifCheckTargets: ranges are real; a nested target extends its parent's address by exactly one
// step; sibling steps are pairwise different; numeric index steps follow the source order; a nested
// target of a written value lies inside its parent's range; DefRange lies inside Range.
func verifCheckTargets(ts reference.Targets, parent *reference.Target) {
	for k, t := range ts {
		if t.RangePtr != nil {
			verifAssert(verifRealRange(vf, *t.RangePtr), "C02:target-range")
		}
		if t.DefRangePtr != nil {
			verifAssert(verifRealRange(vf, *t.DefRangePtr), "C02:target-defrange")
			if t.RangePtr != nil {
				verifAssert(verifAnd(t.RangePtr.Start.Byte <= t.DefRangePtr.Start.Byte, t.DefRangePtr.End.Byte <= t.RangePtr.End.Byte), "C09:definition-inside-declaration")
			}
		}
		if parent != nil && len(parent.Addr) > 0 && len(t.Addr) > 0 {
			verifAssert(len(t.Addr) == len(parent.Addr)+1, "C09:nested-address-one-step-longer")
			if len(t.Addr) == len(parent.Addr)+1 {
				verifAssert(t.Addr.FirstSteps(uint(len(parent.Addr))).Equals(parent.Addr), "C09:nested-address-extends-parent")
			}
			last := t.Addr[len(t.Addr)-1].String()
			for j := 0; j < k; j++ {
				o := ts[j]
				if len(o.Addr) == len(t.Addr) {
					verifAssert(o.Addr[len(o.Addr)-1].String() != last || o.Type != t.Type, "C09:sibling-steps-distinct")
				}
			}
			if t.RangePtr != nil && parent.RangePtr != nil && parent.RangePtr.Filename == t.RangePtr.Filename {
				verifAssert(verifAnd(parent.RangePtr.Start.Byte <= t.RangePtr.Start.Byte, t.RangePtr.End.Byte <= parent.RangePtr.End.Byte), "C09:element-inside-its-value")
			}
			if is, ok := t.Addr[len(t.Addr)-1].(lang.IndexStep); ok && is.Key.Type() == cty.Number && t.RangePtr != nil {
				// list index = source order: an element with a smaller index starts earlier
				for j := 0; j < k; j++ {
					o := ts[j]
					if len(o.Addr) != len(t.Addr) || o.RangePtr == nil {
						continue
					}
					if js, ok := o.Addr[len(o.Addr)-1].(lang.IndexStep); ok && js.Key.Type() == cty.Number {
						if js.Key.LessThan(is.Key).True() {
							verifAssert(o.RangePtr.Start.Byte <= t.RangePtr.Start.Byte, "C09:list-index-is-source-order")
						}
					}
				}
			}
		}
		tt := t
		verifCheckTargets(t.NestedTargets, &tt)
	}
}

func VerifP_C01C02C04C05C10_Origins_N() int { return len(verifSeedList()) }
func VerifP_C01C02C04C05C10_Origins_Name(i int) string { return verifSeedList()[i].name }
func VerifP_C01C02C04C05C10_Origins(i int) {
	d, s := verifSeedDecoder(i)
	verifFreeze(d.pathCtx)
	verifQuery(func() {
		os, err := d.CollectReferenceOrigins()
		if err == nil {
			for k, o := range os {
				verifAssert(verifRealRange(vf, o.OriginRange()), "C02:origin-range")
				if k > 0 {
					verifAssert(os[k-1].OriginRange().Start.Byte <= o.OriginRange().Start.Byte, "C10:origins-ordered")
				}
			}
			if !verifSeedHasOneOf(s) {
				body := d.pathCtx.Files[vf].Body.(*hclsyntax.Body)
				want := verifExpectedOrigins(body, d.pathCtx.Schema)
				got := 0
				for _, o := range os {
					if _, ok := o.(reference.LocalOrigin); ok {
						got++
					}
				}
				if !verifSeedHasForExpr(s) {
					verifAssert(got == len(want), "C10:one-origin-per-written-reference")
				}
				for _, w := range want {
					found := false
					for _, o := range os {
						lo, ok := o.(reference.LocalOrigin)
						if ok && lo.Addr.String() == w.addr {
							found = verifOr(found, verifAnd(lo.Range.Start.Byte == w.rng.Start.Byte, lo.Range.End.Byte == w.rng.End.Byte))
						}
					}
					verifAssert(found, "C10:written-reference-collected-with-its-range")
				}
			}
		}
	})
	verifNoWrites("C04:origins-writes", true)
	verifNoWrites("C05:origins-writes", false)
	verifReach("end")
}

type verifWantOrigin struct {
	addr string
	rng  hcl.Range
}

// a for expression's iterator variable is collected as an origin by the decoder but is not a free
// variable for hclsyntax.Variables; the property does not say which reading is right, so the count
// is not compared on such seeds (inclusion still is)
func verifSeedHasForExpr(s verifSeed) bool {
	return s.name == "alst-for"
}

func verifSeedHasOneOf(s verifSeed) bool {
	return s.name == "one" // the OneOf attribute: the admitted forms are a union, not modelled by the oracle
}

// verifExpectedOrigins: the references written at places where the attribute's constraint admits a
// reference or an arbitrary expression (computed with hclsyntax.Variables, independently of the collector).
func verifExpectedOrigins(body *hclsyntax.Body, bs *schema.BodySchema) []verifWantOrigin {
	var out []verifWantOrigin
	if bs == nil {
		return out
	}
	selfOK := bs.Extensions != nil && bs.Extensions.SelfRefs
	for name, attr := range body.Attributes {
		as, ok := bs.Attributes[name]
		if !ok {
			if bs.Extensions != nil && bs.Extensions.Count && name == "count" {
				as = schemahelper.CountAttributeSchema()
			} else if bs.Extensions != nil && bs.Extensions.ForEach && name == "for_each" {
				as = schemahelper.ForEachAttributeSchema()
			} else if bs.AnyAttribute != nil {
				as = bs.AnyAttribute
			} else {
				continue
			}
		}
		out = append(out, verifRefsUnder(attr.Expr, as.Constraint, selfOK)...)
	}
	for _, block := range body.Blocks {
		bsch, ok := bs.Blocks[block.Type]
		if !ok || block.Body == nil {
			continue
		}
		merged, _ := schemahelper.MergeBlockBodySchemas(block.AsHCLBlock(), bsch)
		out = append(out, verifExpectedOrigins(block.Body, merged)...)
	}
	return out
}

func verifRefsUnder(expr hclsyntax.Expression, cons schema.Constraint, selfOK bool) []verifWantOrigin {
	var out []verifWantOrigin
	add := func(e hclsyntax.Expression) {
		for _, tr := range hclsyntax.Variables(e) {
			if tr.RootName() == "self" && !selfOK {
				continue
			}
			addr, err := lang.TraversalToAddress(tr)
			if err != nil {
				continue
			}
			out = append(out, verifWantOrigin{addr: addr.String(), rng: tr.SourceRange()})
		}
	}
	switch c := cons.(type) {
	case schema.OneOf:
		// the admitted forms are a union: a reference admitted by any member counts once
		seen := map[string]bool{}
		for _, m := range c {
			for _, w := range verifRefsUnder(expr, m, selfOK) {
				k := w.addr + "@" + stringPos(w.rng.Start)
				if !seen[k] {
					seen[k] = true
					out = append(out, w)
				}
			}
		}
	case schema.AnyExpression:
		add(expr)
	case schema.Reference:
		if _, ok := expr.(*hclsyntax.ScopeTraversalExpr); ok {
			add(expr)
		}
	case schema.List:
		if t, ok := expr.(*hclsyntax.TupleConsExpr); ok {
			for _, e := range t.Exprs {
				out = append(out, verifRefsUnder(e, c.Elem, selfOK)...)
			}
		}
	case schema.Set:
		if t, ok := expr.(*hclsyntax.TupleConsExpr); ok {
			for _, e := range t.Exprs {
				out = append(out, verifRefsUnder(e, c.Elem, selfOK)...)
			}
		}
	case schema.Tuple:
		if t, ok := expr.(*hclsyntax.TupleConsExpr); ok {
			for k, e := range t.Exprs {
				if k < len(c.Elems) {
					out = append(out, verifRefsUnder(e, c.Elems[k], selfOK)...)
				}
			}
		}
	case schema.Map:
		if o, ok := expr.(*hclsyntax.ObjectConsExpr); ok {
			for _, it := range o.Items {
				out = append(out, verifRefsUnder(it.ValueExpr, c.Elem, selfOK)...)
			}
		}
	case schema.Object:
		if o, ok := expr.(*hclsyntax.ObjectConsExpr); ok {
			for _, it := range o.Items {
				key, _, found := rawObjectKey(it.KeyExpr)
				if !found {
					continue
				}
				if as, ok := c.Attributes[key]; ok {
					out = append(out, verifRefsUnder(it.ValueExpr, as.Constraint, selfOK)...)
				}
			}
		}
	}
	return out
}

func VerifP_C01C02C04C05C20_Signature_N() int { return len(verifSeedList()) }
func VerifP_C01C02C04C05C20_Signature_Name(i int) string { return verifSeedList()[i].name }
func VerifP_C01C02C04C05C20_Signature(i int) {
	d, _ := verifSeedDecoder(i)
	pos := verifAnyPos(vf)
	verifFreeze(d.pathCtx)
	verifQuery(func() {
		sig, err := d.SignatureAtPos(vf, pos)
		if err == nil && sig != nil {
			verifAssert(int(sig.ActiveParameter) < len(sig.Parameters) || len(sig.Parameters) == 0, "C20:active-parameter-valid"+verifCursorTag())
		}
		if err == nil {
			verifCheckSignature(d, pos, sig)
		}
	})
	verifNoWrites("C04:signature-writes", true)
	verifNoWrites("C05:signature-writes", false)
	verifReach("end")
}

// verifCheckSignature: the oracle counts, in the token list, the top-level commas of the innermost
// known call between its opening parenthesis and the cursor.
func verifCheckSignature(d *PathDecoder, pos hcl.Pos, sig *lang.FunctionSignature) {
	body := d.pathCtx.Files[vf].Body.(*hclsyntax.Body)
	var inner *hclsyntax.FunctionCallExpr
	boundary := false
	hclsyntax.VisitAll(body, func(node hclsyntax.Node) hcl.Diagnostics {
		call, ok := node.(*hclsyntax.FunctionCallExpr)
		if !ok {
			return nil
		}
		if _, known := d.pathCtx.Functions[call.Name]; !known {
			return nil
		}
		if call.CloseParenRange.End.Byte == 0 {
			return nil // unterminated call: the parser gives no closing parenthesis (F11)
		}
		// strictly inside the parentheses
		if call.OpenParenRange.End.Byte <= pos.Byte && pos.Byte <= call.CloseParenRange.Start.Byte {
			inner = call // VisitAll goes from outer to inner nodes
		}
		// directly in front of an opening parenthesis the decoder already reports that call;
		// whether that position is "inside the parentheses" is not settled by the property
		if call.OpenParenRange.Start.Byte == pos.Byte {
			boundary = true
		}
		return nil
	})
	if inner == nil || boundary {
		return
	}
	f := d.pathCtx.Functions[inner.Name]
	params := len(f.Params)
	if f.VarParam != nil {
		params++
	}
	if params == 0 {
		verifAssert(sig != nil, "C20:signature-inside-known-call"+verifCursorTag())
		return
	}
	tokens, _ := hclsyntax.LexConfig(d.pathCtx.Files[vf].Bytes, vf, hcl.InitialPos)
	commas, depth := 0, 0
	for _, t := range tokens {
		if t.Range.Start.Byte < inner.OpenParenRange.End.Byte || t.Range.End.Byte > pos.Byte {
			continue
		}
		switch t.Type {
		case hclsyntax.TokenOParen, hclsyntax.TokenOBrack, hclsyntax.TokenOBrace, hclsyntax.TokenTemplateInterp, hclsyntax.TokenTemplateControl:
			depth++
		case hclsyntax.TokenCParen, hclsyntax.TokenCBrack, hclsyntax.TokenCBrace, hclsyntax.TokenTemplateSeqEnd:
			depth--
		case hclsyntax.TokenComma:
			if depth == 0 {
				commas++
			}
		}
	}
	if commas >= params && f.VarParam == nil {
		// more arguments than parameters and no variadic one: no signature of this call
		if sig != nil {
			verifAssert(!strings.HasPrefix(sig.Name, inner.Name+"("), "C20:none-for-surplus-argument"+verifCursorTag())
		}
		return
	}
	want := commas
	if want >= params {
		want = params - 1
	}
	verifAssert(sig != nil, "C20:signature-inside-known-call"+verifCursorTag())
	if sig != nil {
		verifAssert(strings.HasPrefix(sig.Name, inner.Name+"("), "C20:signature-of-innermost-known-call"+verifCursorTag())
		verifAssert(len(sig.Parameters) == params, "C20:parameters-fixed-then-variadic"+verifCursorTag())
		verifAssert(int(sig.ActiveParameter) == want, "C20:active-parameter-is-argument-slot-under-cursor"+verifCursorTag())
	}
}

func VerifP_C01C02C04C05C16_Links_N() int { return len(verifSeedList()) }
func VerifP_C01C02C04C05C16_Links_Name(i int) string { return verifSeedList()[i].name }
func VerifP_C01C02C04C05C16_Links(i int) {
	d, _ := verifSeedDecoder(i)
	verifFreeze(d.pathCtx)
	verifQuery(func() {
		links, err := d.LinksInFile(vf)
		if err == nil {
			for _, l := range links {
				verifAssert(verifRealRange(vf, l.Range), "C02:link-range")
			}
		}
	})
	verifNoWrites("C04:links-writes", true)
	verifNoWrites("C05:links-writes", false)
	verifReach("end")
}
