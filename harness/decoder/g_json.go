package decoder

import (
	"github.com/hashicorp/hcl-lang/lang"
	"github.com/hashicorp/hcl-lang/reference"
	"github.com/hashicorp/hcl/v2"
	"github.com/zclconf/go-cty/cty"
)

// C19: a configuration written in HCL's JSON syntax yields the same reference
// graph and outline as the equivalent native configuration. Pairs are
// enumerated (the weakest applicable use of the technique, DESIGN §6 C19); the
// solver covers all layouts of both files.

type verifPair struct {
	name   string
	native string
	json   string
	schema int
}

func verifPairs() []verifPair {
	return []verifPair{
		{"top-attr", "top = \"t\"\n", "{ \"top\": \"t\" }\n", 2},
		{"variable", "variable \"v\" {\n  type = string\n}\n", "{ \"variable\": { \"v\": { \"type\": \"string\" } } }\n", 2},
		{"variable-default", "variable \"v\" {\n  default = \"d\"\n}\n", "{ \"variable\": { \"v\": { \"default\": \"d\" } } }\n", 2},
		{"locals", "locals {\n  a = \"x\"\n  b = 1\n}\n", "{ \"locals\": { \"a\": \"x\", \"b\": 1 } }\n", 2},
		{"locals-list", "locals {\n  c = [ 1, 2 ]\n}\n", "{ \"locals\": { \"c\": [ 1, 2 ] } }\n", 2},
		{"locals-ref", "locals {\n  r = var.v\n  l = [ var.v, 1 ]\n}\n", "{ \"locals\": { \"r\": \"${var.v}\", \"l\": [ \"${var.v}\", 1 ] } }\n", 2},
		{"locals-obj", "locals {\n  o = { k = var.v }\n}\n", "{ \"locals\": { \"o\": { \"k\": \"${var.v}\" } } }\n", 2},
		{"res", "res \"aws\" \"a\" {\n  marker = \"x\"\n  size = 1\n}\n", "{ \"res\": { \"aws\": { \"a\": { \"marker\": \"x\", \"size\": 1 } } } }\n", 2},
		{"res-array", "res \"aws\" \"a\" {\n  size = 1\n}\nres \"aws\" \"b\" {\n  size = 2\n}\n", "{ \"res\": [ { \"aws\": { \"a\": { \"size\": 1 } } }, { \"aws\": { \"b\": { \"size\": 2 } } } ] }\n", 2},
		{"out-ref", "out \"o\" {\n  value = var.v\n}\n", "{ \"out\": { \"o\": { \"value\": \"${ var.v }\" } } }\n", 2},
		{"out-deps", "out \"o\" {\n  value = 1\n  deps = [ aws.a ]\n}\n", "{ \"out\": { \"o\": { \"value\": 1, \"deps\": [ \"aws.a\" ] } } }\n", 2},
		{"data", "data \"d\" {\n  id = \"i\"\n  obj {\n    w = 1\n  }\n}\n", "{ \"data\": { \"d\": { \"id\": \"i\", \"obj\": { \"w\": 1 } } } }\n", 2},
		{"opt-member", "opt \"o\" {\n  x = var.v\n  member {\n    who = var.v\n  }\n}\n",
			"{ \"opt\": { \"o\": { \"x\": \"${var.v}\", \"member\": { \"who\": \"${var.v}\" } } } }\n", 2},
		{"be-partial", "be \"s3\" {\n  backend = \"s\"\n  bucket = \"b\"\n}\n",
			"{ \"be\": { \"s3\": { \"backend\": \"s\", \"bucket\": \"b\" } } }\n", 2},
		{"be-special", "be \"s3\" {\n  backend = \"special\"\n  special_opt = \"o\"\n}\n",
			"{ \"be\": { \"s3\": { \"backend\": \"special\", \"special_opt\": \"o\" } } }\n", 2},
		{"mod-siblings", "mod \"m\" {\n  source = \"./m\"\n  input = \"i\"\n}\nmod \"m\" {\n  source = \"./n\"\n  other = \"o\"\n}\n",
			"{ \"mod\": [ { \"m\": { \"source\": \"./m\", \"input\": \"i\" } }, { \"m\": { \"source\": \"./n\", \"other\": \"o\" } } ] }\n", 2},
		{"flagged-on", "flagged {\n  on = true\n  extra = \"x\"\n}\n", "{ \"flagged\": { \"on\": true, \"extra\": \"x\" } }\n", 2},
		{"data-arn", "data \"d\" {\n  arn = var.v\n  id = \"i\"\n}\n", "{ \"data\": { \"d\": { \"arn\": \"${var.v}\", \"id\": \"i\" } } }\n", 2},
		{"amapt-interpolated-key", "amapt = { (var.v) = \"x\", k = var.v }\n", "{ \"amapt\": { \"${var.v}\": \"x\", \"k\": \"${var.v}\" } }\n", 2},
		{"res-rule-dynamic", "res \"aws\" \"a\" {\n  rule {\n    dynamic \"action\" {\n      for_each = [ 1 ]\n      content {\n      }\n    }\n  }\n}\n",
			"{ \"res\": { \"aws\": { \"a\": { \"rule\": { \"dynamic\": { \"action\": { \"for_each\": [ 1 ], \"content\": { } } } } } } } }\n", 2},
		{"mixed", "top = \"t\"\nvariable \"v\" {\n  type = number\n}\nout \"o\" {\n  value = var.v\n}\n",
			"{ \"top\": \"t\", \"variable\": { \"v\": { \"type\": \"number\" } }, \"out\": { \"o\": { \"value\": \"${ var.v }\" } } }\n", 2},
	}
}

func verifPairDecoders(i int) (*PathDecoder, *PathDecoder) {
	p := verifPairs()[i]
	D := verifBound("D", 2, 4)
	fn := verifStretch(p.native, "n.tf", D, 0)
	fj := verifStretch(p.json, "j.tf.json", D, 0)
	mk := func(name string, f *hcl.File) *PathDecoder {
		pc := &PathContext{Schema: verifSchemas(p.schema), Files: map[string]*hcl.File{name: f}, Functions: verifFunctions(), ReferenceTargets: verifTargets()}
		d := NewDecoder(&verifPathReader{paths: map[string]*PathContext{"dir": pc}})
		d.SetContext(NewDecoderContext())
		pd, _ := d.Path(lang.Path{Path: "dir"})
		return pd
	}
	return mk("n.tf", fn), mk("j.tf.json", fj)
}

func verifAbsTargets(ts reference.Targets, prefix string, out map[string]string) {
	for _, t := range ts {
		if len(t.Addr) > 0 {
			ty := "-"
			if t.Type != cty.NilType {
				ty = t.Type.FriendlyName()
			}
			out[t.Addr.String()+"|"+string(t.ScopeId)] = ty
		}
		verifAbsTargets(t.NestedTargets, prefix, out)
	}
}

func VerifP_C01C02C19_JSONvsNative_N() int            { return len(verifPairs()) }
func VerifP_C01C02C19_JSONvsNative_Name(i int) string { return verifPairs()[i].name }
func VerifP_C01C02C19_JSONvsNative(i int) {
	dn, dj := verifPairDecoders(i)
	tn, en := dn.CollectReferenceTargets()
	tj, ej := dj.CollectReferenceTargets()
	verifAssert((en == nil) == (ej == nil), "C19:targets-error-same")
	mn, mj := map[string]string{}, map[string]string{}
	verifAbsTargets(tn, "", mn)
	verifAbsTargets(tj, "", mj)
	for k, v := range mn {
		w, ok := mj[k]
		verifAssert(ok, "C19:native-target-also-in-json["+k+"]")
		if ok {
			verifAssert(v == w, "C19:target-type-same["+k+"]")
		}
	}
	for k := range mj {
		_, ok := mn[k]
		verifAssert(ok, "C19:json-target-also-in-native["+k+"]")
	}
	for _, t := range tj {
		if t.RangePtr != nil {
			verifAssert(verifRealRange("j.tf.json", *t.RangePtr), "C02:json-target-range")
		}
	}
	on, _ := dn.CollectReferenceOrigins()
	oj, _ := dj.CollectReferenceOrigins()
	an, aj := map[string]int{}, map[string]int{}
	for _, o := range on {
		if m, ok := o.(reference.MatchableOrigin); ok {
			an[m.Address().String()]++
		}
	}
	for _, o := range oj {
		if m, ok := o.(reference.MatchableOrigin); ok {
			aj[m.Address().String()]++
		}
		verifAssert(verifRealRange("j.tf.json", o.OriginRange()), "C02:json-origin-range")
	}
	for k, n := range an {
		verifAssert(aj[k] == n, "C19:origin-in-both["+k+"]")
	}
	for k, n := range aj {
		verifAssert(an[k] == n, "C19:origin-in-both["+k+"]")
	}
	// the outline of a JSON file is only available through the workspace query (Decoder.Symbols -> PathDecoder.symbols)
	sn, _ := dn.symbols("")
	sj, _ := dj.symbols("")
	verifOutlineSame(sn, sj)
	verifReach("end")
}

// verifOutlineSame: the same items in the same order, recursively through blocks (the elements of
// attribute values are not compared: the two syntaxes represent expressions differently).
func verifOutlineSame(sn, sj []Symbol) {
	verifAssert(len(sn) == len(sj), "C19:outline-length-same")
	for k := range sn {
		if k < len(sj) {
			verifAssert(sn[k].Name() == sj[k].Name(), "C19:outline-name-same")
			verifAssert(verifRealRange("j.tf.json", sj[k].Range()), "C02:json-symbol-range")
			_, nb := sn[k].(*BlockSymbol)
			_, jb := sj[k].(*BlockSymbol)
			verifAssert(nb == jb, "C19:outline-kind-same")
			if nb && jb {
				verifOutlineSame(sn[k].NestedSymbols(), sj[k].NestedSymbols())
			}
		}
	}
}

// C14 for JSON (with schema): the outline of a JSON file, through the workspace query.
func verifJSONSymbolSeeds() []string {
	many := "{ \"data\": { \"d\": { \"lst\": ["
	for k := 0; k < 14; k++ {
		if k > 0 {
			many += ", "
		}
		many += "{ \"v\": \"x\" }"
	}
	many += "], \"id\": \"i\" } } }\n"
	return []string{
		"{ \"top\": \"t\", \"locals\": { \"a\": \"x\" } }\n",
		"{ \"res\": [ { \"aws\": { \"a\": { \"size\": 1 } } }, { \"aws\": { \"b\": { \"size\": 2 } } } ], \"top\": \"t\" }\n",
		many,
		"{ \"mod\": [ { \"m\": { \"source\": \"./m\", \"input\": \"i\" } }, { \"m\": { \"source\": \"./n\", \"other\": \"o\" } } ] }\n",
		"{ \"be\": { \"s3\": { \"backend\": \"s\", \"bucket\": \"b\" } }, \"two\": { \"kind\": \"a\", \"ab_opt\": \"x\" } }\n",
	}
}

// verifJSONOutlines: the written items of the seeds above, block bodies in braces (empty: not stated)
func verifJSONOutlines() []string {
	return []string{
		"top;locals{a}",
		"",
		"",
		"mod \"m\"{source;input};mod \"m\"{source;other}",
		"be \"s3\"{backend;bucket};two{kind;ab_opt}",
	}
}

func verifOutlineString(syms []Symbol) string {
	out := ""
	for k, sy := range syms {
		if k > 0 {
			out += ";"
		}
		out += sy.Name()
		if _, isBlock := sy.(*BlockSymbol); isBlock {
			out += "{" + verifOutlineString(sy.NestedSymbols()) + "}"
		}
	}
	return out
}

func verifSymbolsOrdered(syms []Symbol, file string) {
	for k, sy := range syms {
		r := sy.Range()
		verifAssert(verifRealRange(file, r), "C02:json-symbol-range")
		if k > 0 {
			p := syms[k-1].Range()
			verifAssert(p.Start.Byte <= r.Start.Byte, "C14:json-source-order")
			// items that share their start (blocks written as an array of objects) keep their source order
			verifAssert(verifOr(p.Start.Byte < r.Start.Byte, p.End.Byte <= r.End.Byte), "C14:json-source-order-among-equal-starts")
		}
		verifSymbolsOrdered(sy.NestedSymbols(), file)
	}
}

func VerifP_C01C02C14_JSONSymbols_N() int { return len(verifJSONSymbolSeeds()) }
func VerifP_C01C02C14_JSONSymbols(i int) {
	D := verifBound("D", 2, 4)
	f := verifStretch(verifJSONSymbolSeeds()[i], "j.tf.json", D, 0)
	pc := &PathContext{Schema: verifSchemaSB(), Files: map[string]*hcl.File{"j.tf.json": f}}
	d := verifDecoderFromCtx(pc)
	verifFreeze(pc)
	syms, err := d.symbols("")
	if err == nil {
		verifSymbolsOrdered(syms, "j.tf.json")
		if want := verifJSONOutlines()[i]; want != "" {
			verifAssert(verifOutlineString(syms) == want, "C14:json-outline-is-the-written-items")
		}
	}
	verifNoWrites("C04:json-symbols-writes", true)
	verifReach("end")
}
