package decoder

import (
	"context"

	"github.com/hashicorp/hcl-lang/lang"
	"github.com/hashicorp/hcl-lang/schema"
	"github.com/hashicorp/hcl/v2"
)

// gCompletion drives CompletionAtPos over every layout and cursor of one seed
// and asserts C01 (implicitly), C02 and C06(a) on every candidate.
func gCompletion(src string, bs *schema.BodySchema, prefill bool) {
	D := verifBound("D", 3, 8)
	f := verifStretch(src, "test.tf", D, 0)
	d := verifDecoder(bs, map[string]*hcl.File{"test.tf": f})
	d.PrefillRequiredFields = prefill
	pos := verifAnyPos("test.tf")
	verifFreeze(d.pathCtx)
	verifQuery(func() {
		cs, err := d.CompletionAtPos(context.Background(), "test.tf", pos)
		if err == nil {
			gCheckCandidates(cs, pos)
		}
	})
	verifNoWrites("C04:completion", true)
	verifNoWrites("C05:completion", false)
	verifReach("end")
}

func gCheckCandidates(cs lang.Candidates, pos hcl.Pos) { gCheckCandidatesFrom(cs, pos, 1) }

// gCheckCandidatesFrom: first = the number the snippet's tab stops start at; 0: at the smallest
// one used (the property asks for consecutive numbers, each once - not for a start at 1: with
// pre-filling on, a label candidate's snippet starts at ${2}).
func gCheckCandidatesFrom(cs lang.Candidates, pos hcl.Pos, first int) {
	at := verifCursorTag()
	verifAssert(len(cs.List) <= 100, "C06:limit")
	for _, c := range cs.List {
		r := c.TextEdit.Range
		verifAssert(verifRealRange("test.tf", r), "C02/C06:edit-range-real"+at)
		verifAssert(r.Start.Byte <= pos.Byte, "C06:edit-starts-at-or-before-cursor"+at)
		if r.End.Byte < pos.Byte {
			verifAssert(verifBlankBetween("test.tf", r.End.Byte, pos.Byte), "C06:edit-reaches-cursor"+at)
		}
		// text forms: tab stops of the snippet are numbered from 1, consecutively, each once
		stops := verifSnippetStops(c.TextEdit.Snippet)
		from := first
		if from == 0 {
			for _, s := range stops {
				if verifIsSymbolic(s) {
					from = 1
					break
				}
				if s != 0 && (from == 0 || s < from) {
					from = s
				}
			}
		}
		if from > 0 {
			verifCheckStops(stops, from, "candidate-snippet")
		}
	}
}

func VerifH_C01C02C06_Completion_S1_bool() {
	gCompletion("lv =  true\n", verifSchemaS1(), false)
}

func VerifH_C01C02C06_Completion_S1_str() {
	gCompletion("str =  \"fo\"\n", verifSchemaS1(), false)
}

func VerifH_C01C02C06_Completion_S1_body() {
	gCompletion("str = \"x\"\nblk \"a\" {\n  inner = \"y\"\n}\nl\n", verifSchemaS1(), false)
}
