package decoder

import (
	"context"
	"fmt"

	"github.com/hashicorp/hcl-lang/lang"
	"github.com/hashicorp/hcl-lang/reference"
	"github.com/hashicorp/hcl-lang/schema"
	"github.com/hashicorp/hcl/v2"
	"github.com/zclconf/go-cty/cty"
)

// C03: a result may not depend on the iteration order of Go maps. The engine
// re-runs the query with every map iterated in a different order (reversed,
// rotated; for small maps every order at every range statement) and compares
// the results; natively the query is simply repeated (Go re-randomises).

func verifManyTargetable(n int) (*schema.BodySchema, string) {
	attrs := map[string]*schema.AttributeSchema{}
	src := ""
	for i := 0; i < n; i++ {
		name := fmt.Sprintf("a%02d", i)
		attrs[name] = &schema.AttributeSchema{Constraint: schema.LiteralType{Type: cty.String}, IsOptional: true,
			Address: &schema.AttributeAddrSchema{Steps: schema.Address{schema.StaticStep{Name: "x"}, schema.AttrNameStep{}},
				AsReference: true, AsExprType: true, ScopeId: lang.ScopeId("s")}}
		src += name + " = \"v\"\n"
	}
	return &schema.BodySchema{Attributes: attrs}, src
}

func VerifH_C03_Determinism_Targets_Many() {
	bs, src := verifManyTargetable(8)
	f := verifParseHCL(src, vf)
	d := verifDecoder(bs, map[string]*hcl.File{vf: f})
	r0, err0 := d.CollectReferenceTargets()
	for k := 0; k < verifRuns(); k++ {
		verifPermuteMaps(1 + verifChoice("mode", 2))
		r, err := d.CollectReferenceTargets()
		verifPermuteMaps(0)
		verifAssert((err == nil) == (err0 == nil), "C03:targets-error-deterministic")
		verifAssert(verifDeepEqual(r, r0), "C03:targets-order-deterministic")
	}
	verifReach("end")
}

func VerifP_C03_Determinism_N() int            { return len(verifSeedList()) }
func VerifP_C03_Determinism_Name(i int) string { return verifSeedList()[i].name }
func VerifP_C03_Determinism(i int) {
	s := verifSeedList()[i]
	f := verifParseHCL(s.src, vf)
	pc := &PathContext{Schema: verifSchemas(s.schema), Files: map[string]*hcl.File{vf: f}, Functions: verifFunctions(), ReferenceTargets: verifTargets(), Validators: verifValidators()}
	dd := NewDecoder(&verifPathReader{paths: map[string]*PathContext{"dir": pc}})
	dd.SetContext(NewDecoderContext())
	d, _ := dd.Path(lang.Path{Path: "dir"})
	ctx := context.Background()
	t0, _ := d.CollectReferenceTargets()
	o0, _ := d.CollectReferenceOrigins()
	s0, _ := d.SemanticTokensInFile(ctx, vf)
	y0, _ := d.SymbolsInFile(vf)
	v0, _ := d.ValidateFile(ctx, vf)
	end := hcl.Pos{Line: 1, Column: 1, Byte: 0}
	c0, _ := d.CompletionAtPos(ctx, vf, end)
	l0, _ := d.LinksInFile(vf)
	for k := 0; k < verifRuns(); k++ {
		verifPermuteMaps(1 + verifChoice("mode", 2))
		t1, _ := d.CollectReferenceTargets()
		o1, _ := d.CollectReferenceOrigins()
		s1, _ := d.SemanticTokensInFile(ctx, vf)
		y1, _ := d.SymbolsInFile(vf)
		v1, _ := d.ValidateFile(ctx, vf)
		c1, _ := d.CompletionAtPos(ctx, vf, end)
		l1, _ := d.LinksInFile(vf)
		verifPermuteMaps(0)
		verifAssert(verifDeepEqual(l1, l0), "C03:links-deterministic")
		verifAssert(verifDeepEqual(t1, t0), "C03:targets-deterministic")
		verifAssert(verifDeepEqual(o1, o0), "C03:origins-deterministic")
		verifAssert(verifDeepEqual(s1, s0), "C03:semtok-deterministic")
		verifAssert(len(y1) == len(y0), "C03:symbols-count-deterministic")
		for q := range y0 {
			if q < len(y1) {
				verifAssert(y0[q].Name() == y1[q].Name(), "C03:symbols-order-deterministic")
			}
		}
		verifAssert(len(v1) == len(v0), "C03:diagnostics-count-deterministic")
		for _, a := range v0 {
			found := false
			for _, b := range v1 {
				if verifDeepEqual(a, b) {
					found = true
				}
			}
			verifAssert(found, "C03:diagnostics-multiset-deterministic")
		}
		verifAssert(len(c1.List) == len(c0.List), "C03:candidates-count-deterministic")
		for q := range c0.List {
			if q < len(c1.List) {
				verifAssert(c0.List[q].Label == c1.List[q].Label, "C03:candidates-order-deterministic")
			}
		}
	}
	verifReach("end")
}

// C03 at a position: completion, hover and signature help at any position of the (unstretched)
// seed, in insertion order and with every map reversed / rotated.
func VerifP_C03_DeterminismAtPos_N() int            { return len(verifSeedList()) }
func VerifP_C03_DeterminismAtPos_Name(i int) string { return verifSeedList()[i].name }
func VerifP_C03_DeterminismAtPos(i int) {
	s := verifSeedList()[i]
	f := verifStretch(s.src, vf, 0, 0)
	pc := &PathContext{Schema: verifSchemas(s.schema), Files: map[string]*hcl.File{vf: f}, Functions: verifFunctions(), ReferenceTargets: verifTargets(), Validators: verifValidators()}
	dd := NewDecoder(&verifPathReader{paths: map[string]*PathContext{"dir": pc}})
	dd.SetContext(NewDecoderContext())
	d, _ := dd.Path(lang.Path{Path: "dir"})
	ctx := context.Background()
	pos := verifAnyPos(vf)
	c0, ce0 := d.CompletionAtPos(ctx, vf, pos)
	h0, he0 := d.HoverAtPos(ctx, vf, pos)
	g0, ge0 := d.SignatureAtPos(vf, pos)
	for k := 0; k < verifRuns(); k++ {
		verifPermuteMaps(1 + verifChoice("mode", 2))
		c1, ce1 := d.CompletionAtPos(ctx, vf, pos)
		h1, he1 := d.HoverAtPos(ctx, vf, pos)
		g1, ge1 := d.SignatureAtPos(vf, pos)
		verifPermuteMaps(0)
		at := verifCursorTag()
		verifAssert((ce0 == nil) == (ce1 == nil), "C03:completion-error-deterministic"+at)
		verifAssert(len(c1.List) == len(c0.List), "C03:candidates-count-deterministic"+at)
		for q := range c0.List {
			if q < len(c1.List) {
				verifAssert(c0.List[q].Label == c1.List[q].Label, "C03:candidates-order-deterministic"+at)
				verifAssert(c0.List[q].TextEdit.Snippet == c1.List[q].TextEdit.Snippet, "C03:candidate-snippet-deterministic"+at)
				verifAssert(c0.List[q].Detail == c1.List[q].Detail, "C03:candidate-detail-deterministic"+at)
				verifAssert(c0.List[q].Description.Value == c1.List[q].Description.Value, "C03:candidate-description-deterministic"+at)
			}
		}
		verifAssert((he0 == nil) == (he1 == nil), "C03:hover-error-deterministic"+at)
		verifAssert((h0 == nil) == (h1 == nil), "C03:hover-presence-deterministic"+at)
		if h0 != nil && h1 != nil {
			verifAssert(h0.Content.Value == h1.Content.Value, "C03:hover-content-deterministic"+at)
		}
		verifAssert((ge0 == nil) == (ge1 == nil), "C03:signature-error-deterministic"+at)
		verifAssert((g0 == nil) == (g1 == nil), "C03:signature-presence-deterministic"+at)
		if g0 != nil && g1 != nil {
			verifAssert(g0.Name == g1.Name && g0.ActiveParameter == g1.ActiveParameter, "C03:signature-deterministic"+at)
		}
	}
	verifReach("end")
}

// C03 over several files: two files contribute different implied origins for the same origin
// address (a module call copied into a second file with another source), a third file writes the
// reference; collected origins, targets and the lookups must not depend on the order in which the
// files of the path are visited.
func VerifH_C03C10C11_Determinism_MultiFile() {
	str := schema.LiteralType{Type: cty.String}
	addr := func(steps ...string) lang.Address {
		a := lang.Address{lang.RootStep{Name: steps[0]}}
		for _, s := range steps[1:] {
			a = append(a, lang.AttrStep{Name: s})
		}
		return a
	}
	dep := func(src, target string) (schema.SchemaKey, *schema.BodySchema) {
		return schema.NewSchemaKey(schema.DependencyKeys{Attributes: []schema.AttributeDependent{{Name: "source", Expr: schema.ExpressionValue{Static: cty.StringVal(src)}}}}),
			&schema.BodySchema{ImpliedOrigins: schema.ImpliedOrigins{{OriginAddress: addr("module", "m", "out"), TargetAddress: addr("output", target), Path: lang.Path{Path: "mods/" + target}, Constraints: schema.Constraints{ScopeId: lang.ScopeId("output")}}}}
	}
	k1, b1 := dep("./m", "one")
	k2, b2 := dep("./n", "two")
	bs := &schema.BodySchema{
		Attributes: map[string]*schema.AttributeSchema{"use": {Constraint: schema.AnyExpression{OfType: cty.DynamicPseudoType}, IsOptional: true}},
		Blocks: map[string]*schema.BlockSchema{
			"module": {
				Labels:        []*schema.LabelSchema{{Name: "name"}},
				Address:       &schema.BlockAddrSchema{Steps: schema.Address{schema.StaticStep{Name: "module"}, schema.LabelStep{Index: 0}}, AsReference: true, ScopeId: lang.ScopeId("module")},
				Body:          &schema.BodySchema{Attributes: map[string]*schema.AttributeSchema{"source": {Constraint: str, IsOptional: true, IsDepKey: true}}},
				DependentBody: map[schema.SchemaKey]*schema.BodySchema{k1: b1, k2: b2},
			},
		},
	}
	files := map[string]*hcl.File{
		"a.tf": verifParseHCL("module \"m\" {\n  source = \"./m\"\n}\n", "a.tf"),
		"b.tf": verifParseHCL("module \"m\" {\n  source = \"./n\"\n}\n", "b.tf"),
		"c.tf": verifParseHCL("use = module.m.out\n", "c.tf"),
		// a file that sorts before the declaring ones and refers to the same output
		"0.tf": verifParseHCL("\nuse = module.m.out\n", "0.tf"),
	}
	d := verifDecoder(bs, files)
	o0, _ := d.CollectReferenceOrigins()
	t0, _ := d.CollectReferenceTargets()
	for k := 0; k < verifRuns(); k++ {
		verifPermuteMaps(1 + verifChoice("mode", 2))
		o1, _ := d.CollectReferenceOrigins()
		t1, _ := d.CollectReferenceTargets()
		verifPermuteMaps(0)
		verifAssert(verifDeepEqual(o1, o0), "C03:origins-independent-of-file-visit-order")
		verifAssert(verifDeepEqual(t1, t0), "C03:targets-independent-of-file-visit-order")
	}
	// each written reference is one local origin and, by the two module blocks, two path origins
	// - whatever the names of the files it and the module blocks are written in
	verifAssert(len(o0) == 6, "C10/C11:one-local-and-two-implied-origins-per-written-reference")
	nPath := map[string]int{}
	for _, o := range o0 {
		if po, ok := o.(reference.PathOrigin); ok {
			nPath[po.OriginRange().Filename]++
			verifAssert(po.TargetPath.Path == "mods/one" || po.TargetPath.Path == "mods/two", "C11:implied-origin-points-into-the-implied-path")
		}
	}
	verifAssert(nPath["c.tf"] == 2 && nPath["0.tf"] == 2, "C10/C11:implied-origins-for-references-in-every-file")
	for k := 1; k < len(o0); k++ {
		a, b := o0[k-1].OriginRange(), o0[k].OriginRange()
		verifAssert(a.Filename < b.Filename || (a.Filename == b.Filename && a.Start.Byte <= b.Start.Byte), "C10:origins-ordered-by-file-and-position")
	}
	verifReach("end")
}
