package decoder

import (
	"github.com/hashicorp/hcl-lang/lang"
	"github.com/hashicorp/hcl-lang/reference"
	"github.com/hashicorp/hcl-lang/schema"
	"github.com/hashicorp/hcl/v2"
	"github.com/zclconf/go-cty/cty"
)

// C09 (K): one addressable block schema is declared at the root and, the very same, nested in a
// block that is not addressable (the way a data source is scoped to a check block). Which of the
// addressability flags are set is symbolic (all combinations BlockAddrSchema.Validate accepts).
// What is collected for the nested declaration is what is collected for the root one: present or
// not, the same kinds (reference / data), the same type, the same number of inferred nested
// targets - the schema below the root reaches the collector through copies, the root one directly.
func VerifH_C09_AddressableBlock_RootVsNested() {
	asRef := verifBool("as-reference")
	bodyData := verifBool("body-as-data")
	inferBody := verifBool("infer-body")
	depData := verifBool("dependent-body-as-data")
	inferDep := verifBool("infer-dependent-body")
	addr := &schema.BlockAddrSchema{
		Steps:               schema.Address{schema.StaticStep{Name: "data"}, schema.LabelStep{Index: 0}, schema.LabelStep{Index: 1}},
		ScopeId:             lang.ScopeId("data"),
		AsReference:         asRef,
		BodyAsData:          bodyData,
		InferBody:           inferBody,
		DependentBodyAsData: depData,
		InferDependentBody:  inferDep,
	}
	verifAssume(addr.Validate() == nil)
	str := schema.LiteralType{Type: cty.String}
	data := &schema.BlockSchema{
		Labels:  []*schema.LabelSchema{{Name: "type", IsDepKey: true}, {Name: "name"}},
		Type:    schema.BlockTypeObject,
		Address: addr,
		Body:    &schema.BodySchema{Attributes: map[string]*schema.AttributeSchema{"count": {Constraint: schema.LiteralType{Type: cty.Number}, IsOptional: true}}},
		DependentBody: map[schema.SchemaKey]*schema.BodySchema{
			schema.NewSchemaKey(schema.DependencyKeys{Labels: []schema.LabelDependent{{Index: 0, Value: "http"}}}): {
				Attributes: map[string]*schema.AttributeSchema{"url": {Constraint: str, IsOptional: true}},
			},
		},
	}
	bs := &schema.BodySchema{Blocks: map[string]*schema.BlockSchema{
		"data":  data,
		"check": {Labels: []*schema.LabelSchema{{Name: "name"}}, Body: &schema.BodySchema{Blocks: map[string]*schema.BlockSchema{"data": data}}},
	}}
	src := "data \"http\" \"root\" {\n  url = \"u\"\n  count = 1\n}\ncheck \"c\" {\n  data \"http\" \"scoped\" {\n    url = \"u\"\n    count = 1\n  }\n}\n"
	d := verifDecoder(bs, map[string]*hcl.File{vf: verifParseHCL(src, vf)})
	ts, err := d.CollectReferenceTargets()
	verifAssert(err == nil, "C09:targets-collected")
	type seen struct {
		n, typed, nested int
		ty               string
	}
	look := func(name string) seen {
		var s seen
		var walk func(ts reference.Targets)
		walk = func(ts reference.Targets) {
			for _, t := range ts {
				if t.Addr.String() == "data.http."+name {
					s.n++
					if t.Type != cty.NilType {
						s.typed++
						s.ty = t.Type.FriendlyName()
					}
					s.nested += len(t.NestedTargets)
				}
			}
		}
		walk(ts)
		return s
	}
	root, nested := look("root"), look("scoped")
	want := 0
	if asRef {
		want++
	}
	if bodyData || depData {
		want++
	}
	verifAssert(root.n == want, "C09:one-target-per-kind-the-schema-marks-addressable")
	verifAssert(nested.n == root.n, "C09:nested-addressable-block-collected-like-the-root-one")
	verifAssert(nested.typed == root.typed && nested.ty == root.ty, "C09:nested-addressable-block-has-the-type-of-the-root-one")
	verifAssert(nested.nested == root.nested, "C09:nested-addressable-block-infers-the-same-nested-targets")
	verifReach("end")
}
