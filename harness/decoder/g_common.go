package decoder

import (
	"context"
	"errors"
	"strings"

	"github.com/hashicorp/hcl-lang/lang"
	"github.com/hashicorp/hcl-lang/schema"
	"github.com/hashicorp/hcl-lang/validator"
	"github.com/hashicorp/hcl/v2"
	"github.com/zclconf/go-cty/cty"
)

type verifPathReader struct {
	paths map[string]*PathContext
}

func (r *verifPathReader) Paths(ctx context.Context) []lang.Path {
	out := make([]lang.Path, 0)
	for p := range r.paths {
		out = append(out, lang.Path{Path: p})
	}
	return out
}

func (r *verifPathReader) PathContext(path lang.Path) (*PathContext, error) {
	return r.paths[path.Path], nil
}

func verifDecoder(bs *schema.BodySchema, files map[string]*hcl.File) *PathDecoder {
	pc := &PathContext{
		Schema: bs,
		Files:  files,
	}
	d := NewDecoder(&verifPathReader{paths: map[string]*PathContext{"dir": pc}})
	d.SetContext(NewDecoderContext())
	pd, err := d.Path(lang.Path{Path: "dir"})
	if err != nil {
		panic(err)
	}
	return pd
}

func verifDecoderFromCtx(pc *PathContext) *PathDecoder {
	d := NewDecoder(&verifPathReader{paths: map[string]*PathContext{"dir": pc}})
	d.SetContext(NewDecoderContext())
	pd, err := d.Path(lang.Path{Path: "dir"})
	if err != nil {
		panic(err)
	}
	return pd
}

func verifSchemaS1() *schema.BodySchema {
	return &schema.BodySchema{
		Attributes: map[string]*schema.AttributeSchema{
			"str":  {Constraint: schema.LiteralType{Type: cty.String}, IsOptional: true, Description: lang.PlainText("a string")},
			"num":  {Constraint: schema.LiteralType{Type: cty.Number}, IsOptional: true},
			"flag": {Constraint: schema.LiteralType{Type: cty.Bool}, IsOptional: true},
			"kw":   {Constraint: schema.Keyword{Keyword: "foo", Name: "kw"}, IsOptional: true},
			"lv":   {Constraint: schema.LiteralValue{Value: cty.True}, IsOptional: true},
		},
		Blocks: map[string]*schema.BlockSchema{
			"blk": {
				Labels: []*schema.LabelSchema{{Name: "name"}},
				Body: &schema.BodySchema{
					Attributes: map[string]*schema.AttributeSchema{
						"inner": {Constraint: schema.LiteralType{Type: cty.String}, IsOptional: true},
					},
				},
			},
		},
	}
}

func VerifH_C01C12_Hover_Concrete() {
	src := "str = \"x\"\nblk \"a\" {\n  inner = \"y\"\n}\n"
	f := verifParseHCL(src, "test.tf")
	d := verifDecoder(verifSchemaS1(), map[string]*hcl.File{"test.tf": f})
	b := verifInt("byte", 0, 9)
	pos := hcl.Pos{Line: 1, Column: b + 1, Byte: b}
	verifFreeze(d.pathCtx)
	verifQuery(func() {
		hd, err := d.HoverAtPos(context.Background(), "test.tf", pos)
		if err == nil && hd != nil {
			verifAssert(hd.Content.Value != "", "C12:content")
			verifAssert(verifAnd(hd.Range.Start.Byte <= pos.Byte, pos.Byte <= hd.Range.End.Byte), "C12:contains")
		}
	})
	verifNoWrites("C04:hover", true)
	verifNoWrites("C05:hover", false)
	verifReach("end")
}

func VerifH_C01C02C12_Hover_S1() {
	src := "str = \"x\"\nblk \"a\" {\n  inner = \"y\"\n}\nlv = true\n"
	D := verifBound("D", 3, 8)
	f := verifStretch(src, "test.tf", D, 0)
	d := verifDecoder(verifSchemaS1(), map[string]*hcl.File{"test.tf": f})
	pos := verifAnyPos("test.tf")
	verifFreeze(d.pathCtx)
	verifQuery(func() {
		hd, err := d.HoverAtPos(context.Background(), "test.tf", pos)
		if err == nil && hd != nil {
			verifAssert(hd.Content.Value != "", "C12:content")
			verifAssert(verifRealRange("test.tf", hd.Range), "C02:hover-range")
			verifAssert(verifAnd(hd.Range.Start.Byte <= pos.Byte, pos.Byte <= hd.Range.End.Byte), "C12:contains")
		}
	})
	verifNoWrites("C04:hover", true)
	verifNoWrites("C05:hover", false)
	verifReach("end")
}

// shared helpers of the harness files (kept here so that a kernel file which stops compiling
// against a changed tree can be left out without taking the others with it)

// hasPrefixSym: strings.HasPrefix re-stated (the specification must not call the code under test's helpers; strings.HasPrefix is the library).
func hasPrefixSym(s, p string) bool {
	if len(p) > len(s) {
		return false
	}
	return s[:len(p)] == p
}

func verifValidators() []validator.Validator {
	return []validator.Validator{
		validator.BlockLabelsLength{}, validator.DeprecatedAttribute{}, validator.DeprecatedBlock{},
		validator.MaxBlocks{}, validator.MinBlocks{}, validator.MissingRequiredAttribute{},
		validator.UnexpectedAttribute{}, validator.UnexpectedBlock{},
	}
}

func verifCountDiags(diags hcl.Diagnostics, prefix string) int {
	n := 0
	for _, d := range diags {
		if strings.HasPrefix(d.Summary, prefix) {
			n++
		}
	}
	return n
}

// verifContains: strings.Contains re-stated for concrete strings.
func verifContains(s, sub string) bool {
	for i := 0; i+len(sub) <= len(s); i++ {
		if s[i:i+len(sub)] == sub {
			return true
		}
	}
	return false
}

// verifFaultyReader: a path reader whose paths can individually fail.
type verifFaultyReader struct {
	order []string
	ctxs  map[string]*PathContext
	fail  map[string]bool
}

// (a key "dir|language" stands for the path of that directory with that language id: a directory
// can hold several languages, each with a path context of its own)
func verifPathOfKey(k string) lang.Path {
	for i := 0; i < len(k); i++ {
		if k[i] == '|' {
			return lang.Path{Path: k[:i], LanguageID: k[i+1:]}
		}
	}
	return lang.Path{Path: k}
}

func verifKeyOfPath(p lang.Path) string {
	if p.LanguageID != "" {
		return p.Path + "|" + p.LanguageID
	}
	return p.Path
}

func (r *verifFaultyReader) Paths(ctx context.Context) []lang.Path {
	out := make([]lang.Path, 0)
	for _, p := range r.order {
		out = append(out, verifPathOfKey(p))
	}
	return out
}

func (r *verifFaultyReader) PathContext(path lang.Path) (*PathContext, error) {
	if r.fail[verifKeyOfPath(path)] {
		return nil, errors.New("unreadable path")
	}
	return r.ctxs[verifKeyOfPath(path)], nil
}
