package decoder

import (
	"github.com/hashicorp/hcl-lang/lang"
	"github.com/hashicorp/hcl-lang/reference"
	"github.com/hashicorp/hcl-lang/schema"
	"github.com/hashicorp/hcl/v2"
	"github.com/zclconf/go-cty/cty"
	"github.com/zclconf/go-cty/cty/function"
)

// The enumerated part of every G claim: seeds (token shapes) and the schema
// each is decoded under. The solver covers all layouts and cursors per seed.

type verifSeed struct {
	name   string
	src    string
	schema int // index into verifSchemas
}

func verifOpt(c schema.Constraint) *schema.AttributeSchema {
	return &schema.AttributeSchema{Constraint: c, IsOptional: true}
}

// SA: one attribute per constraint kind.
func verifSchemaSA() *schema.BodySchema {
	return &schema.BodySchema{
		Attributes: map[string]*schema.AttributeSchema{
			"str":    {Constraint: schema.LiteralType{Type: cty.String}, IsOptional: true, Description: lang.PlainText("a string")},
			"num":    verifOpt(schema.LiteralType{Type: cty.Number}),
			"flag":   verifOpt(schema.LiteralType{Type: cty.Bool}),
			"lst":    verifOpt(schema.LiteralType{Type: cty.List(cty.String)}),
			"mp":     verifOpt(schema.LiteralType{Type: cty.Map(cty.String)}),
			"obj":    verifOpt(schema.LiteralType{Type: cty.Object(map[string]cty.Type{"a": cty.String, "b": cty.Number})}),
			"tup":    verifOpt(schema.LiteralType{Type: cty.Tuple([]cty.Type{cty.String, cty.Number})}),
			"dynobj": verifOpt(schema.LiteralType{Type: cty.Object(map[string]cty.Type{"alpha": cty.DynamicPseudoType, "beta": cty.String})}),
			"dyntup": verifOpt(schema.LiteralType{Type: cty.Tuple([]cty.Type{cty.DynamicPseudoType, cty.String})}),
			"adyn":   verifOpt(schema.AnyExpression{OfType: cty.Object(map[string]cty.Type{"alpha": cty.DynamicPseudoType, "beta": cty.Number})}),
			"lobj":   verifOpt(schema.LiteralType{Type: cty.List(cty.Object(map[string]cty.Type{"k": cty.String, "l": cty.Number}))}),
			"kw":     verifOpt(schema.Keyword{Keyword: "foo", Name: "kw"}),
			"lvs":    verifOpt(schema.LiteralValue{Value: cty.StringVal("foo")}),
			"lvb":    verifOpt(schema.LiteralValue{Value: cty.True}),
			"lvn":    verifOpt(schema.LiteralValue{Value: cty.NumberIntVal(42)}),
			"one": verifOpt(schema.OneOf{
				schema.LiteralValue{Value: cty.StringVal("aa")},
				schema.LiteralValue{Value: cty.StringVal("ab")},
				schema.Keyword{Keyword: "kwd"},
			}),
			"onerefs": verifOpt(schema.OneOf{
				schema.List{Elem: schema.Reference{OfType: cty.String}},
				schema.List{Elem: schema.Reference{OfType: cty.Number}},
			}),
			"askip": verifOpt(schema.OneOf{
				schema.AnyExpression{OfType: cty.List(cty.String), SkipLiteralComplexTypes: true},
				schema.List{Elem: schema.Reference{OfType: cty.String}},
			}),
			"hooked": {Constraint: schema.LiteralType{Type: cty.String}, IsOptional: true, CompletionHooks: lang.CompletionHooks{{Name: "verifhook"}}},
			"astr":   verifOpt(schema.AnyExpression{OfType: cty.String}),
			"anum":   verifOpt(schema.AnyExpression{OfType: cty.Number}),
			"abool":  verifOpt(schema.AnyExpression{OfType: cty.Bool}),
			"alst":   verifOpt(schema.AnyExpression{OfType: cty.List(cty.String)}),
			"aobj":   verifOpt(schema.AnyExpression{OfType: cty.Object(map[string]cty.Type{"a": cty.String})}),
			"amap":   verifOpt(schema.AnyExpression{OfType: cty.Map(cty.String)}),
			"any":    verifOpt(schema.AnyExpression{OfType: cty.DynamicPseudoType}),
			"ref":    verifOpt(schema.Reference{OfScopeId: lang.ScopeId("variable")}),
			"reft":   verifOpt(schema.Reference{OfType: cty.String}),
			"typ":    verifOpt(schema.TypeDeclaration{}),
			"clist":  verifOpt(schema.List{Elem: schema.LiteralType{Type: cty.String}}),
			"cset":   verifOpt(schema.Set{Elem: schema.Keyword{Keyword: "foo"}}),
			"ctup":   verifOpt(schema.Tuple{Elems: []schema.Constraint{schema.LiteralType{Type: cty.String}, schema.LiteralType{Type: cty.Number}}}),
			"cmap":   verifOpt(schema.Map{Elem: schema.LiteralType{Type: cty.String}}),
			"cobj": verifOpt(schema.Object{Attributes: schema.ObjectAttributes{
				"a": {Constraint: schema.LiteralType{Type: cty.String}, IsRequired: true},
				"b": {Constraint: schema.AnyExpression{OfType: cty.Number}, IsOptional: true},
			}}),
		},
		Blocks: map[string]*schema.BlockSchema{
			"blk": {
				Labels:                 []*schema.LabelSchema{{Name: "name", SemanticTokenModifiers: lang.SemanticTokenModifiers{"m-label"}}},
				SemanticTokenModifiers: lang.SemanticTokenModifiers{"m-blk1", "m-blk2"},
				Body: &schema.BodySchema{
					Attributes: map[string]*schema.AttributeSchema{
						"inner": {Constraint: schema.LiteralType{Type: cty.String}, IsOptional: true, SemanticTokenModifiers: lang.SemanticTokenModifiers{"m-inner"}},
						"req":   {Constraint: schema.LiteralType{Type: cty.Number}, IsRequired: true, SemanticTokenModifiers: lang.SemanticTokenModifiers{"m-req"}},
					},
					Blocks: map[string]*schema.BlockSchema{
						"conn": {SemanticTokenModifiers: lang.SemanticTokenModifiers{"m-conn"},
							Labels: []*schema.LabelSchema{{Name: "kind", SemanticTokenModifiers: lang.SemanticTokenModifiers{"m-kind"}}, {Name: "id", SemanticTokenModifiers: lang.SemanticTokenModifiers{"m-id"}}},
							Body:   &schema.BodySchema{Attributes: map[string]*schema.AttributeSchema{"host": {Constraint: schema.LiteralType{Type: cty.String}, IsOptional: true}}}},
						"nested": {SemanticTokenModifiers: lang.SemanticTokenModifiers{"m-nested"},
							Body: &schema.BodySchema{Attributes: map[string]*schema.AttributeSchema{
								"deep":  {Constraint: schema.AnyExpression{OfType: cty.String}, IsOptional: true, SemanticTokenModifiers: lang.SemanticTokenModifiers{"m-deep"}},
								"deep2": {Constraint: schema.LiteralType{Type: cty.Number}, IsOptional: true, SemanticTokenModifiers: lang.SemanticTokenModifiers{"m-deep2"}},
							}}},
					},
				},
			},
			"nolabel": {
				Body:     &schema.BodySchema{Attributes: map[string]*schema.AttributeSchema{"x": verifOpt(schema.LiteralType{Type: cty.Number})}},
				MaxItems: 1,
			},
		},
	}
}

func verifFunctions() map[string]schema.FunctionSignature {
	return map[string]schema.FunctionSignature{
		"f0":               {ReturnType: cty.String, Description: "no params"},
		"f1":               {ReturnType: cty.String, Params: []function.Parameter{{Name: "a", Type: cty.String}}},
		"fobj":             {ReturnType: cty.Object(map[string]cty.Type{"a": cty.String}), Params: []function.Parameter{{Name: "o", Type: cty.String}}},
		"fobk":             {ReturnType: cty.Object(map[string]cty.Type{"b": cty.Number}), Params: []function.Parameter{{Name: "a", Type: cty.String}}},
		"fsb":              {ReturnType: cty.Bool, Params: []function.Parameter{{Name: "s", Type: cty.String}, {Name: "b", Type: cty.Bool}}},
		"f2":               {ReturnType: cty.Number, Params: []function.Parameter{{Name: "a", Type: cty.Number}, {Name: "b", Type: cty.Number}}},
		"fv":               {ReturnType: cty.String, Params: []function.Parameter{{Name: "a", Type: cty.String}}, VarParam: &function.Parameter{Name: "rest", Type: cty.String}},
		"provider::ns::fn": {ReturnType: cty.String, Params: []function.Parameter{{Name: "a", Type: cty.String}}},
	}
}

func verifTargets() reference.Targets {
	return reference.Targets{
		{Addr: lang.Address{lang.RootStep{Name: "var"}, lang.AttrStep{Name: "bar"}}, ScopeId: lang.ScopeId("variable"), Type: cty.Number,
			RangePtr: &hcl.Range{Filename: "vars.tf", Start: hcl.Pos{Line: 3, Column: 1, Byte: 20}, End: hcl.Pos{Line: 3, Column: 10, Byte: 29}}},
		{Addr: lang.Address{lang.RootStep{Name: "var"}, lang.AttrStep{Name: "dyn"}}, ScopeId: lang.ScopeId("variable"), Type: cty.DynamicPseudoType,
			RangePtr: &hcl.Range{Filename: "vars.tf", Start: hcl.Pos{Line: 5, Column: 1, Byte: 40}, End: hcl.Pos{Line: 5, Column: 10, Byte: 49}}},
		{Addr: lang.Address{lang.RootStep{Name: "var"}, lang.AttrStep{Name: "foo"}}, ScopeId: lang.ScopeId("variable"), Type: cty.String,
			RangePtr: &hcl.Range{Filename: "vars.tf", Start: hcl.Pos{Line: 1, Column: 1, Byte: 0}, End: hcl.Pos{Line: 1, Column: 10, Byte: 9}}},
	}
}

// verifDepEntry: a dependent body with the keys that select it, kept as a list so that oracles
// can state which body a block selects without decoding schema keys.
type verifDepEntry struct {
	keys schema.DependencyKeys
	body *schema.BodySchema
}

func verifDepMap(es []verifDepEntry) map[schema.SchemaKey]*schema.BodySchema {
	m := map[schema.SchemaKey]*schema.BodySchema{}
	for _, e := range es {
		m[schema.NewSchemaKey(e.keys)] = e.body
	}
	return m
}

// the dependent bodies of "res": by first label; by first label and the "prov" reference, with
// ("aws") and without ("azr") a labels-only companion.
func verifResDepEntries() []verifDepEntry {
	str := schema.LiteralType{Type: cty.String}
	num := schema.LiteralType{Type: cty.Number}
	provAddr := func(a, b string) []schema.AttributeDependent {
		return []schema.AttributeDependent{{Name: "prov", Expr: schema.ExpressionValue{Address: lang.Address{lang.RootStep{Name: a}, lang.AttrStep{Name: b}}}}}
	}
	return []verifDepEntry{
		{schema.DependencyKeys{Labels: []schema.LabelDependent{{Index: 0, Value: "aws"}}}, &schema.BodySchema{
			Attributes: map[string]*schema.AttributeSchema{
				"marker": {Constraint: str, IsOptional: true, Description: lang.PlainText("only for aws")},
				"size":   {Constraint: schema.AnyExpression{OfType: cty.Number}, IsRequired: true},
			},
			Blocks: map[string]*schema.BlockSchema{
				"plain": {Body: &schema.BodySchema{Attributes: map[string]*schema.AttributeSchema{"v": {Constraint: schema.AnyExpression{OfType: cty.Number}, IsOptional: true}}}},
				"rule": {Type: schema.BlockTypeList, Body: &schema.BodySchema{
					Attributes: map[string]*schema.AttributeSchema{"port": {Constraint: num, IsOptional: true}, "proto": {Constraint: str, IsOptional: true}, "prio": {Constraint: num, IsOptional: true}},
					Blocks: map[string]*schema.BlockSchema{"action": {Body: &schema.BodySchema{
						Attributes: map[string]*schema.AttributeSchema{"kind": {Constraint: str, IsOptional: true}},
						Blocks:     map[string]*schema.BlockSchema{"step": {Body: &schema.BodySchema{Attributes: map[string]*schema.AttributeSchema{"n": {Constraint: num, IsOptional: true}}}}},
					}}},
					Extensions: &schema.BodyExtensions{SelfRefs: true}}, MaxItems: 2},
			},
			DocsLink: &schema.DocsLink{URL: "https://example.com/aws"},
			Detail:   "aws thing",
		}},
		{schema.DependencyKeys{Labels: []schema.LabelDependent{{Index: 0, Value: "gcp"}}}, &schema.BodySchema{
			Attributes: map[string]*schema.AttributeSchema{"zone": {Constraint: str, IsOptional: true}},
		}},
		{schema.DependencyKeys{Labels: []schema.LabelDependent{{Index: 0, Value: "aws"}}, Attributes: provAddr("aws", "v2")}, &schema.BodySchema{
			Attributes:  map[string]*schema.AttributeSchema{"marker2": {Constraint: str, IsOptional: true, Description: lang.PlainText("second generation only")}},
			Detail:      "aws second generation",
			Description: lang.Markdown("selected by label and prov"),
		}},
		{schema.DependencyKeys{Labels: []schema.LabelDependent{{Index: 0, Value: "azr"}}, Attributes: provAddr("azr", "v1")}, &schema.BodySchema{
			Attributes:  map[string]*schema.AttributeSchema{"zone2": {Constraint: str, IsOptional: true}},
			Detail:      "azr thing",
			Description: lang.Markdown("only with prov"),
		}},
	}
}

// the dependent bodies of "be": two levels - by label, then by label and the "backend" attribute
// which the first-level body declares as a key; every body has its own documentation link.
func verifBeDepEntries() []verifDepEntry {
	str := schema.LiteralType{Type: cty.String}
	s3 := []schema.LabelDependent{{Index: 0, Value: "s3"}}
	return []verifDepEntry{
		{schema.DependencyKeys{Labels: s3}, &schema.BodySchema{
			Attributes: map[string]*schema.AttributeSchema{"backend": {Constraint: str, IsOptional: true, IsDepKey: true}, "bucket": {Constraint: str, IsOptional: true}},
			DocsLink:   &schema.DocsLink{URL: "https://example.com/s3"},
			Detail:     "s3 first level",
		}},
		{schema.DependencyKeys{Labels: s3, Attributes: []schema.AttributeDependent{{Name: "backend", Expr: schema.ExpressionValue{Static: cty.StringVal("special")}}}}, &schema.BodySchema{
			Attributes: map[string]*schema.AttributeSchema{"backend": {Constraint: str, IsOptional: true, IsDepKey: true}, "special_opt": {Constraint: str, IsOptional: true}},
			DocsLink:   &schema.DocsLink{URL: "https://example.com/s3/special"},
			Detail:     "s3 special",
		}},
	}
}

// the dependent bodies of "two": selected by two attributes of the static body, one of which has a default
func verifTwoDepEntries() []verifDepEntry {
	str := schema.LiteralType{Type: cty.String}
	kv := func(k, m string) []schema.AttributeDependent {
		return []schema.AttributeDependent{
			{Name: "kind", Expr: schema.ExpressionValue{Static: cty.StringVal(k)}},
			{Name: "mode", Expr: schema.ExpressionValue{Static: cty.StringVal(m)}},
		}
	}
	return []verifDepEntry{
		{schema.DependencyKeys{Attributes: kv("a", "b")}, &schema.BodySchema{
			Attributes: map[string]*schema.AttributeSchema{"ab_opt": {Constraint: str, IsOptional: true}},
			DocsLink:   &schema.DocsLink{URL: "https://example.com/two/ab"},
		}},
		{schema.DependencyKeys{Attributes: kv("a", "c")}, &schema.BodySchema{
			Attributes: map[string]*schema.AttributeSchema{"ac_opt": {Constraint: str, IsOptional: true}},
			DocsLink:   &schema.DocsLink{URL: "https://example.com/two/ac"},
		}},
	}
}

func verifModDepEntries() []verifDepEntry {
	return []verifDepEntry{
		{schema.DependencyKeys{Attributes: []schema.AttributeDependent{{Name: "source", Expr: schema.ExpressionValue{Static: cty.StringVal("./m")}}}}, &schema.BodySchema{
			Attributes: map[string]*schema.AttributeSchema{"input": {Constraint: schema.AnyExpression{OfType: cty.String}, IsOptional: true}},
		}},
		{schema.DependencyKeys{Attributes: []schema.AttributeDependent{{Name: "source", Expr: schema.ExpressionValue{Static: cty.StringVal("./n")}}}}, &schema.BodySchema{
			Attributes: map[string]*schema.AttributeSchema{"other": {Constraint: schema.AnyExpression{OfType: cty.String}, IsRequired: true}},
		}},
	}
}

func verifEmptymapsDepEntries() []verifDepEntry {
	return []verifDepEntry{
		{schema.DependencyKeys{Labels: []schema.LabelDependent{{Index: 0, Value: "a"}}}, &schema.BodySchema{
			Attributes: map[string]*schema.AttributeSchema{"ami": {Constraint: schema.LiteralType{Type: cty.String}, IsOptional: true, Description: lang.PlainText("only for a")}},
			Blocks:     map[string]*schema.BlockSchema{"disk": {Body: &schema.BodySchema{}}},
		}},
	}
}

func verifDresDepEntries() []verifDepEntry {
	return []verifDepEntry{
		{schema.DependencyKeys{Labels: []schema.LabelDependent{{Index: 0, Value: "aws"}}}, &schema.BodySchema{
			Attributes: map[string]*schema.AttributeSchema{"lookup": {Constraint: schema.LiteralType{Type: cty.String}, IsOptional: true}, "found": {Constraint: schema.LiteralType{Type: cty.Bool}, IsOptional: true}},
		}},
	}
}

func verifLkDepEntries() []verifDepEntry {
	return []verifDepEntry{
		{schema.DependencyKeys{Labels: []schema.LabelDependent{{Index: 1, Value: "ssh"}}}, &schema.BodySchema{
			Attributes: map[string]*schema.AttributeSchema{"host": {Constraint: schema.LiteralType{Type: cty.String}, IsOptional: true}},
			DocsLink:   &schema.DocsLink{URL: "https://example.com/lk/ssh"},
			Detail:     "ssh kind",
		}},
	}
}

func verifFlaggedDepEntries() []verifDepEntry {
	return []verifDepEntry{
		{schema.DependencyKeys{Attributes: []schema.AttributeDependent{{Name: "on", Expr: schema.ExpressionValue{Static: cty.True}}}}, &schema.BodySchema{
			Attributes: map[string]*schema.AttributeSchema{"extra": {Constraint: schema.LiteralType{Type: cty.String}, IsOptional: true}},
			DocsLink:   &schema.DocsLink{URL: "https://example.com/flagged/on"},
		}},
	}
}

// verifDepEntriesOf: the dependent-body entries of a top-level block type of SB (nil: not listed).
func verifDepEntriesOf(blockType string) []verifDepEntry {
	switch blockType {
	case "res":
		return verifResDepEntries()
	case "be":
		return verifBeDepEntries()
	case "two":
		return verifTwoDepEntries()
	case "mod":
		return verifModDepEntries()
	case "flagged":
		return verifFlaggedDepEntries()
	case "lk":
		return verifLkDepEntries()
	case "dres":
		return verifDresDepEntries()
	case "emptymaps":
		return verifEmptymapsDepEntries()
	}
	return nil
}

// SB: dependent bodies, extensions, addressable blocks and attributes.
func verifSchemaSB() *schema.BodySchema {
	str := schema.LiteralType{Type: cty.String}
	num := schema.LiteralType{Type: cty.Number}
	return &schema.BodySchema{
		Attributes: map[string]*schema.AttributeSchema{
			"top": {Constraint: str, IsOptional: true,
				Address: &schema.AttributeAddrSchema{Steps: schema.Address{schema.StaticStep{Name: "top"}}, AsReference: true, AsExprType: true, ScopeId: lang.ScopeId("topscope")}},
			// map-typed values, addressable with their elements
			"tags": {Constraint: schema.Map{Elem: schema.AnyExpression{OfType: cty.String}}, IsOptional: true,
				Address: &schema.AttributeAddrSchema{Steps: schema.Address{schema.StaticStep{Name: "tags"}}, AsReference: true, AsExprType: true, ScopeId: lang.ScopeId("tags")}},
			"amapt": {Constraint: schema.AnyExpression{OfType: cty.Map(cty.String)}, IsOptional: true,
				Address: &schema.AttributeAddrSchema{Steps: schema.Address{schema.StaticStep{Name: "amapt"}}, AsReference: true, AsExprType: true, ScopeId: lang.ScopeId("tags")}},
		},
		Blocks: map[string]*schema.BlockSchema{
			// dependent body selected by the first label; docs link; extensions
			"res": {
				Labels: []*schema.LabelSchema{{Name: "type", IsDepKey: true, Completable: true}, {Name: "name"}},
				Address: &schema.BlockAddrSchema{Steps: schema.Address{schema.LabelStep{Index: 0}, schema.LabelStep{Index: 1}},
					AsReference: true, ScopeId: lang.ScopeId("resource"), DependentBodyAsData: true, InferDependentBody: true, DependentBodySelfRef: true},
				Body: &schema.BodySchema{
					Attributes: map[string]*schema.AttributeSchema{
						"common": {Constraint: str, IsOptional: true},
						"prov":   {Constraint: schema.Reference{OfScopeId: lang.ScopeId("pv")}, IsOptional: true, IsDepKey: true},
					},
					Extensions: &schema.BodyExtensions{Count: true, ForEach: true, DynamicBlocks: true, SelfRefs: true},
				},
				DependentBody: verifDepMap(verifResDepEntries()),
			},
			// dependent body selected by an attribute value
			"mod": {
				Labels: []*schema.LabelSchema{{Name: "name"}},
				Body: &schema.BodySchema{Attributes: map[string]*schema.AttributeSchema{
					"source": {Constraint: str, IsRequired: true, IsDepKey: true},
				}},
				DependentBody: verifDepMap(verifModDepEntries()),
			},
			// any-attribute body that also declares a nested block type
			"opt": {
				Labels: []*schema.LabelSchema{{Name: "name"}},
				Body: &schema.BodySchema{
					AnyAttribute: &schema.AttributeSchema{Constraint: schema.AnyExpression{OfType: cty.DynamicPseudoType}, IsOptional: true,
						Address: &schema.AttributeAddrSchema{Steps: schema.Address{schema.StaticStep{Name: "opt"}, schema.AttrNameStep{}}, ScopeId: lang.ScopeId("opt"), AsExprType: true, AsReference: true}},
					Blocks: map[string]*schema.BlockSchema{
						"member": {Body: &schema.BodySchema{Attributes: map[string]*schema.AttributeSchema{"who": {Constraint: schema.AnyExpression{OfType: cty.String}, IsOptional: true}}}},
					},
				},
			},
			// two levels of dependent bodies
			"be": {
				Labels: []*schema.LabelSchema{{Name: "type", IsDepKey: true}},
				Body: &schema.BodySchema{Attributes: map[string]*schema.AttributeSchema{"note": {Constraint: str, IsOptional: true}},
					Blocks: map[string]*schema.BlockSchema{"lifecycle": {Body: &schema.BodySchema{Attributes: map[string]*schema.AttributeSchema{"keep": {Constraint: schema.LiteralType{Type: cty.Bool}, IsOptional: true}}}}}},
				DependentBody: verifDepMap(verifBeDepEntries()),
			},
			// a second block type whose dependent bodies are data, keyed like "res" but with other bodies
			"dres": {
				Labels: []*schema.LabelSchema{{Name: "type", IsDepKey: true}, {Name: "name"}},
				Address: &schema.BlockAddrSchema{Steps: schema.Address{schema.StaticStep{Name: "dres"}, schema.LabelStep{Index: 0}, schema.LabelStep{Index: 1}},
					ScopeId: lang.ScopeId("dres"), DependentBodyAsData: true, InferDependentBody: true},
				Body:          &schema.BodySchema{Attributes: map[string]*schema.AttributeSchema{"common": {Constraint: str, IsOptional: true}}},
				DependentBody: verifDepMap(verifDresDepEntries()),
			},
			// a block that implies further targets (targetable-as), nested two deep
			"tg": {
				Labels: []*schema.LabelSchema{{Name: "name"}},
				Body: &schema.BodySchema{
					Attributes: map[string]*schema.AttributeSchema{"x": {Constraint: num, IsOptional: true}},
					TargetableAs: schema.Targetables{{
						Address: lang.Address{lang.RootStep{Name: "tgt"}, lang.AttrStep{Name: "out"}}, ScopeId: lang.ScopeId("tgt"),
						AsType: cty.Object(map[string]cty.Type{"a": cty.String, "b": cty.Object(map[string]cty.Type{"c": cty.Number})}),
						NestedTargetables: schema.Targetables{
							{Address: lang.Address{lang.RootStep{Name: "tgt"}, lang.AttrStep{Name: "out"}, lang.AttrStep{Name: "a"}}, ScopeId: lang.ScopeId("tgt"), AsType: cty.String},
							{Address: lang.Address{lang.RootStep{Name: "tgt"}, lang.AttrStep{Name: "out"}, lang.AttrStep{Name: "b"}}, ScopeId: lang.ScopeId("tgt"), AsType: cty.Object(map[string]cty.Type{"c": cty.Number}),
								NestedTargetables: schema.Targetables{{Address: lang.Address{lang.RootStep{Name: "tgt"}, lang.AttrStep{Name: "out"}, lang.AttrStep{Name: "b"}, lang.AttrStep{Name: "c"}}, ScopeId: lang.ScopeId("tgt"), AsType: cty.Number}}},
						},
					}},
				},
			},
			// the key label is the second one
			"lk": {
				Labels:        []*schema.LabelSchema{{Name: "name"}, {Name: "kind", IsDepKey: true, Completable: true}},
				Body:          &schema.BodySchema{Attributes: map[string]*schema.AttributeSchema{"opt": {Constraint: num, IsOptional: true}}},
				DependentBody: verifDepMap(verifLkDepEntries()),
			},
			// a key attribute with a boolean value
			"flagged": {
				Body:          &schema.BodySchema{Attributes: map[string]*schema.AttributeSchema{"on": {Constraint: schema.LiteralType{Type: cty.Bool}, IsOptional: true, IsDepKey: true}}},
				DependentBody: verifDepMap(verifFlaggedDepEntries()),
			},
			// two attribute keys, one with a default value
			"two": {
				Body: &schema.BodySchema{Attributes: map[string]*schema.AttributeSchema{
					"kind": {Constraint: str, IsOptional: true, IsDepKey: true},
					"mode": {Constraint: str, IsOptional: true, IsDepKey: true, DefaultValue: schema.DefaultValue{Value: cty.StringVal("b")}},
				}},
				DependentBody: verifDepMap(verifTwoDepEntries()),
			},
			// address steps taken from an attribute value, optional and mandatory
			"pv": {
				Labels: []*schema.LabelSchema{{Name: "name"}},
				Address: &schema.BlockAddrSchema{Steps: schema.Address{schema.StaticStep{Name: "pv"}, schema.LabelStep{Index: 0}, schema.AttrValueStep{Name: "alias", IsOptional: true}},
					AsReference: true, ScopeId: lang.ScopeId("pv")},
				Body: &schema.BodySchema{Attributes: map[string]*schema.AttributeSchema{
					"alias": {Constraint: schema.AnyExpression{OfType: cty.DynamicPseudoType}, IsOptional: true}, "region": {Constraint: str, IsOptional: true}}},
			},
			"pw": {
				Labels: []*schema.LabelSchema{{Name: "name"}},
				Address: &schema.BlockAddrSchema{Steps: schema.Address{schema.StaticStep{Name: "pw"}, schema.AttrValueStep{Name: "alias"}, schema.LabelStep{Index: 0}},
					AsReference: true, ScopeId: lang.ScopeId("pv")},
				Body: &schema.BodySchema{Attributes: map[string]*schema.AttributeSchema{
					"alias": {Constraint: schema.AnyExpression{OfType: cty.DynamicPseudoType}, IsOptional: true}}},
			},
			// variable-like block: type of an attribute
			"variable": {
				Labels: []*schema.LabelSchema{{Name: "name"}},
				Address: &schema.BlockAddrSchema{Steps: schema.Address{schema.StaticStep{Name: "var"}, schema.LabelStep{Index: 0}},
					FriendlyName: "variable", ScopeId: lang.ScopeId("variable"), AsReference: true, AsTypeOf: &schema.BlockAsTypeOf{AttributeExpr: "type"}},
				Body: &schema.BodySchema{Attributes: map[string]*schema.AttributeSchema{
					"type":    {Constraint: schema.TypeDeclaration{}, IsOptional: true},
					"default": {Constraint: schema.AnyExpression{OfType: cty.DynamicPseudoType}, IsOptional: true},
				}},
			},
			// locals-like block: every attribute addressable with its expression type
			"locals": {
				Body: &schema.BodySchema{AnyAttribute: &schema.AttributeSchema{
					Constraint: schema.AnyExpression{OfType: cty.DynamicPseudoType}, IsOptional: true,
					Address: &schema.AttributeAddrSchema{Steps: schema.Address{schema.StaticStep{Name: "local"}, schema.AttrNameStep{}}, ScopeId: lang.ScopeId("local"), AsExprType: true, AsReference: true},
				}},
			},
			// body as data with nested block types
			"data": {
				Labels:  []*schema.LabelSchema{{Name: "name"}},
				Address: &schema.BlockAddrSchema{Steps: schema.Address{schema.StaticStep{Name: "data"}, schema.LabelStep{Index: 0}}, ScopeId: lang.ScopeId("data"), BodyAsData: true, InferBody: true},
				Body: &schema.BodySchema{
					Attributes: map[string]*schema.AttributeSchema{
						// also addressable on its own: a position inside it belongs to a nested target of the block and to this one
						"id": {Constraint: str, IsOptional: true, Address: &schema.AttributeAddrSchema{Steps: schema.Address{schema.StaticStep{Name: "zed"}, schema.AttrNameStep{}}, AsReference: true, ScopeId: lang.ScopeId("zed")}},
						"n":  {Constraint: num, IsOptional: true},
						// computed only: not offered, but decoded where written
						"arn": {Constraint: schema.AnyExpression{OfType: cty.String}, IsComputed: true}},
					Blocks: map[string]*schema.BlockSchema{
						"mp":  {Type: schema.BlockTypeMap, Labels: []*schema.LabelSchema{{Name: "key"}}, Body: &schema.BodySchema{Attributes: map[string]*schema.AttributeSchema{"m": {Constraint: num, IsOptional: true}}}},
						"lst": {Type: schema.BlockTypeList, Body: &schema.BodySchema{Attributes: map[string]*schema.AttributeSchema{"v": {Constraint: str, IsOptional: true}}}},
						"obj": {Type: schema.BlockTypeObject, Body: &schema.BodySchema{Attributes: map[string]*schema.AttributeSchema{"w": {Constraint: num, IsOptional: true}}}},
					},
				},
			},
			"out": {
				Labels: []*schema.LabelSchema{{Name: "name"}},
				Body: &schema.BodySchema{Attributes: map[string]*schema.AttributeSchema{
					"value": {Constraint: schema.AnyExpression{OfType: cty.DynamicPseudoType}, IsRequired: true},
					"deps":  {Constraint: schema.List{Elem: schema.Reference{OfScopeId: lang.ScopeId("resource")}}, IsOptional: true},
				}},
			},
		},
	}
}

// SH: schemas with legal holes (they pass Validate): a block schema without Body, labels shorter
// than written, a dependent body whose nested block has no Body under DynamicBlocks, nil maps.
func verifSchemaSH() *schema.BodySchema {
	return &schema.BodySchema{
		Blocks: map[string]*schema.BlockSchema{
			"nobody":    {},
			"nobodylbl": {Labels: []*schema.LabelSchema{{Name: "l", IsDepKey: true}}},
			"dyn": {
				Labels: []*schema.LabelSchema{{Name: "type", IsDepKey: true}},
				Body:   &schema.BodySchema{Extensions: &schema.BodyExtensions{DynamicBlocks: true}},
				DependentBody: map[schema.SchemaKey]*schema.BodySchema{
					schema.NewSchemaKey(schema.DependencyKeys{Labels: []schema.LabelDependent{{Index: 0, Value: "a"}}}): {
						Blocks: map[string]*schema.BlockSchema{"inner": {}},
					},
				},
			},
			"onlybody": {Body: &schema.BodySchema{}},
			// static body with initialised but empty maps
			"emptymaps": {
				Labels:        []*schema.LabelSchema{{Name: "type", IsDepKey: true}},
				Body:          &schema.BodySchema{Attributes: map[string]*schema.AttributeSchema{}, Blocks: map[string]*schema.BlockSchema{}},
				DependentBody: verifDepMap(verifEmptymapsDepEntries()),
			},
		},
	}
}

func verifSchemas(i int) *schema.BodySchema {
	switch i {
	case 3:
		return verifSchemaSH()
	case 1:
		return verifSchemaS1()
	case 2:
		return verifSchemaSB()
	}
	return verifSchemaSA()
}

func verifSeedList() []verifSeed {
	return []verifSeed{
		{"str", "str = \"foo\"\n", 0},
		{"str-gap", "str =  \"fo\"\n", 0},
		{"str-empty", "str = \n", 0},
		{"num", "num = 42\n", 0},
		{"flag", "flag =  true\n", 0},
		{"flag-partial", "flag = tr\n", 0},
		{"lst", "lst = [ \"a\", \"b\" ]\n", 0},
		{"mp", "mp = { k = \"v\" }\n", 0},
		{"obj", "obj = { a = \"x\", b = 1 }\n", 0},
		{"tup", "tup = [ \"a\", 1 ]\n", 0},
		{"kw", "kw = foo\n", 0},
		{"kw-partial", "kw =  f\n", 0},
		{"lvs", "lvs =  \"fo\"\n", 0},
		{"lvb", "lvb =  true\n", 0},
		{"lvn", "lvn = 4\n", 0},
		{"one", "one = \"a\"\n", 0},
		{"astr-lit", "astr = \"x\"\n", 0},
		{"astr-ref", "astr = var.foo\n", 0},
		{"astr-partial-ref", "astr = var.\n", 0},
		{"astr-tpl", "astr = \"a ${ var.foo } b\"\n", 0},
		{"astr-func", "astr = f1( \"x\" )\n", 0},
		{"astr-func-partial", "astr = f\n", 0},
		{"astr-func-ns", "astr = provider::ns::f\n", 0},
		{"astr-cond", "astr = true ? \"a\" : var.foo\n", 0},
		{"anum-op", "anum = 1 + var.bar\n", 0},
		{"anum-paren", "anum = ( 1 + 2 )\n", 0},
		{"abool-not", "abool = ! true\n", 0},
		{"alst", "alst = [ var.foo, \"b\" ]\n", 0},
		{"alst-for", "alst = [ for x in var.foo : x ]\n", 0},
		{"aobj", "aobj = { a = var.foo }\n", 0},
		{"amap", "amap = { k = var.foo }\n", 0},
		{"any-idx", "any = var.foo[0]\n", 0},
		{"any-splat", "any = var.foo[*].id\n", 0},
		{"ref", "ref = var.foo\n", 0},
		{"ref-partial", "ref = var.f\n", 0},
		{"reft", "reft = var.foo\n", 0},
		{"typ", "typ = list( string )\n", 0},
		{"typ-obj", "typ = object({ a = string })\n", 0},
		{"typ-partial", "typ = li\n", 0},
		{"clist", "clist = [ \"a\", \"b\" ]\n", 0},
		{"clist-empty", "clist = [ ]\n", 0},
		{"cset", "cset = [ foo ]\n", 0},
		{"ctup", "ctup = [ \"a\", 1 ]\n", 0},
		{"cmap", "cmap = { k = \"v\" }\n", 0},
		{"cmap-empty", "cmap = { }\n", 0},
		{"cobj", "cobj = { a = \"x\", b = 1 }\n", 0},
		{"cobj-empty", "cobj = { }\n", 0},
		{"cobj-partial", "cobj = {\n  a\n}\n", 0},
		{"blk", "blk \"a\" {\n  inner = \"y\"\n  req = 1\n}\n", 0},
		{"blk-nested", "blk \"a\" {\n  nested {\n    deep = \"z\"\n    deep2 = 2\n  }\n}\n", 0},
		{"blk-conn", "blk \"a\" {\n  conn \"ssh\" \"primary\" {\n    host = \"h\"\n  }\n}\n", 0},
		{"blk-nolabel", "blk {\n}\n", 0},
		{"blk-partial-label", "blk \"a\n", 0},
		{"blk-oneline", "nolabel { x = 1 }\n", 0},
		{"blk-then-nolabel", "blk \"a\" {\n  req = 1\n}\nnolabel {\n}\n", 0},
		{"nolabel-then-blk", "nolabel {\n}\nblk \"a\" {\n  req = 1\n}\n", 0},
		{"two-nolabel", "nolabel {\n}\nnolabel {\n}\n", 0},
		{"unknown-attr", "zzz = 1\nstr = \"a\"\n", 0},
		{"unknown-blk", "qqq \"x\" {\n  a = 1\n}\n", 0},
		{"prefix", "s\n", 0},
		{"prefix-long", "str\n", 0},
		{"prefix-second-line", "num = 1\nst\n", 0},
		{"empty", "\n", 0},
		{"multibyte", "str = \"héllo wörld ✓\"\n", 0},
		{"heredoc", "str = <<EOT\nhello\nEOT\n", 0},
		{"unterminated-call", "astr = f1( \"x\", \n", 0},
		{"comment", "# c\nstr = \"x\" # t\n", 0},
		// multi-byte text before a name or label on the same line
		{"mb-comment-prefix", "  /* é */ s\n", 0},
		{"mb-comment-label", "blk /* é */ \"a\" {\n}\n", 0},
		{"mb-two-prefix", "  /* éé */ st\n", 0},
		// empty values: completion offers whole-value snippets
		{"empty-obj", "obj = \n", 0},
		{"empty-tup", "tup = \n", 0},
		{"empty-dynobj", "dynobj = \n", 0},
		{"empty-dyntup", "dyntup = \n", 0},
		{"empty-adyn", "adyn = \n", 0},
		{"empty-lobj", "lobj = \n", 0},
		{"empty-cobj", "cobj = \n", 0},
		{"empty-cmap", "cmap = \n", 0},
		{"empty-ctup", "ctup = \n", 0},
		{"empty-clist", "clist = \n", 0},
		{"empty-astr", "astr = \n", 0},
		// comments and line breaks inside expressions
		{"ctup-comment", "ctup = [ /* c */ \"a\", 1 ]\n", 0},
		{"ctup-linecomment", "ctup = [\n  \"a\", # c\n  1\n]\n", 0},
		{"clist-comment", "clist = [ \"a\", /* c */ \"b\" ]\n", 0},
		{"cobj-comment", "cobj = {\n  a = \"x\" # c\n  b = 1\n}\n", 0},
		{"cmap-multiline", "cmap = {\n  k = \"v\"\n  l = \"w\"\n}\n", 0},
		{"dyn-idx-multiline", "any = var.dyn[\n  0\n]\n", 0},
		{"dyn-attr-multiline", "alst = [\n  var.\n    dyn.x\n]\n", 0},
		{"dyn-steps", "any = var.dyn.a[ 1 ].b\n", 0},
		{"any-idx-multiline", "any = var.foo[\n  0\n]\n", 0},
		{"alst-multiline", "alst = [\n  var.foo,\n  var.\n]\n", 0},
		{"astr-func-multiline", "astr = f1(\n  var.foo\n)\n", 0},
		{"amap-ref-multiline", "amap = {\n  k = var.foo\n}\n", 0},
		// calls: comments between arguments, variadic, nesting, trailing comma
		{"call-comment", "anum = f2( 1, /* c */ 2 )\n", 0},
		{"call-linecomment", "anum = f2(\n  1, # c\n  2\n)\n", 0},
		{"call-variadic", "astr = fv( \"a\", \"b\", \"c\" )\n", 0},
		{"call-nested", "astr = f1( fv( \"x\", \"y\" ) )\n", 0},
		{"call-trailing-comma", "anum = f2( 1, )\n", 0},
		{"call-too-many", "astr = f1( \"a\", \"b\" )\n", 0},
		{"call-noparams", "astr = f0( )\n", 0},
		// SH: schemas with legal holes
		{"nobody", "nobody {\n}\n", 3},
		{"nobody-attr", "nobody {\n  x = 1\n}\n", 3},
		{"nobodylbl", "nobodylbl \"a\" {\n  y = 2\n}\n", 3},
		{"dyn-a", "dyn \"a\" {\n  inner {\n    z = 1\n  }\n}\n", 3},
		{"dyn-b", "dyn \"b\" {\n}\n", 3},
		{"emptymaps", "emptymaps \"a\" {\n  ami = \"x\"\n  disk {\n  }\n}\nemptymaps \"b\" {\n  ami = \"y\"\n}\n", 3},
		{"onlybody", "onlybody {\n  q = 1\n  r {\n  }\n}\n", 3},
		// SB
		{"res-aws", "res \"aws\" \"a\" {\n  marker = \"x\"\n  size = 1\n}\n", 2},
		{"res-aws-rule", "res \"aws\" \"a\" {\n  size = 1\n  rule {\n    port = 80\n  }\n}\n", 2},
		{"res-gcp", "res \"gcp\" \"b\" {\n  zone = \"z\"\n  marker = \"x\"\n}\n", 2},
		{"res-unknown", "res \"zzz\" \"c\" {\n  common = \"x\"\n  other = 1\n}\n", 2},
		{"res-count", "res \"aws\" \"a\" {\n  count = 2\n  size = count.index\n}\n", 2},
		{"res-foreach", "res \"aws\" \"a\" {\n  for_each = var.x\n  size = each.value\n}\n", 2},
		{"res-self", "res \"aws\" \"a\" {\n  size = 1\n  marker = self.size\n}\n", 2},
		{"res-self-nested", "res \"aws\" \"a\" {\n  size = 1\n  marker = self.size\n  plain {\n    v = self.size\n  }\n  rule {\n    port = self.size\n  }\n}\n", 2},
		{"res-dynamic", "res \"aws\" \"a\" {\n  size = 1\n  dynamic \"rule\" {\n    for_each = var.x\n    content {\n      port = 1\n    }\n  }\n}\n", 2},
		{"res-partial-label", "res \"a\n", 2},
		{"res-one-label", "res \"aws\" {\n}\n", 2},
		{"res-aws-v2", "res \"aws\" \"a\" {\n  prov = aws.v2\n  marker2 = \"x\"\n}\n", 2},
		{"res-azr", "res \"azr\" \"z\" {\n  prov = azr.v1\n  zone2 = \"z\"\n}\n", 2},
		{"res-azr-noprov", "res \"azr\" \"z\" {\n  zone2 = \"z\"\n}\n", 2},
		{"res-az-label", "res \"az\" \"z\" {\n}\n", 2},
		{"res-empty-label", "res \"\" \"z\" {\n}\n", 2},
		{"pv-noalias", "pv \"a\" {\n  region = \"r\"\n}\n", 2},
		{"pv-alias", "pv \"a\" {\n  alias = \"west\"\n}\n", 2},
		{"pv-alias-num", "pv \"a\" {\n  alias = 42\n}\npv \"a\" {\n}\n", 2},
		{"pv-alias-ref", "pv \"a\" {\n  alias = var.x\n}\n", 2},
		{"pw-noalias", "pw \"a\" {\n}\n", 2},
		{"pw-alias", "pw \"a\" {\n  alias = \"east\"\n}\n", 2},
		{"be-s3", "be \"s3\" {\n  bucket = \"b\"\n}\n", 2},
		{"be-s3-special", "be \"s3\" {\n  backend = \"special\"\n  special_opt = \"o\"\n}\n", 2},
		{"be-s3-other", "be \"s3\" {\n  backend = \"other\"\n  bucket = \"b\"\n}\n", 2},
		{"be-gcs", "be \"gcs\" {\n  note = \"n\"\n}\n", 2},
		{"two-ab", "two {\n  kind = \"a\"\n  mode = \"b\"\n  ab_opt = \"x\"\n}\n", 2},
		{"two-ac-swapped", "two {\n  mode = \"c\"\n  kind = \"a\"\n  ac_opt = \"x\"\n}\n", 2},
		{"two-default", "two {\n  kind = \"a\"\n  ab_opt = \"x\"\n}\n", 2},
		{"two-none", "two {\n}\n", 2},
		{"mod-two", "mod \"m\" {\n  source = \"./m\"\n  input = \"i\"\n}\nmod \"m\" {\n  source = \"./n\"\n  input = \"i\"\n}\n", 2},
		{"mod-two-swapped", "mod \"m\" {\n  source = \"./n\"\n  other = \"o\"\n}\nmod \"m\" {\n  source = \"./m\"\n  other = \"o\"\n}\n", 2},
		{"onerefs", "onerefs = [ var.foo, var.bar, var.foo ]\n", 0},
		{"aobj-paren-key", "aobj = { (\"a\") = var.foo }\n", 0},
		{"call-noparams-nested", "astr = f1( f0( ) )\n", 0},
		{"data-refs", "data \"d\" {\n  id = \"i\"\n  n = 1\n}\nout \"o\" {\n  value = data.d.id\n  deps = [ zed.id ]\n}\n", 2},
		{"opt-member", "opt \"o\" {\n  x = var.foo\n  member {\n    who = var.foo\n  }\n}\n", 2},
		{"alst-for-multiline", "alst = [\n  for x in var.foo : x\n]\n", 0},
		{"amap-for-multiline", "amap = {\n  for k, v in var.foo : k => v\n}\n", 0},
		{"aobj-func-partial", "aobj = f\n", 0},
		{"empty-aobj", "aobj = \n", 0},
		{"call-mixed-before-arg", "abool = fsb( \"x\",  true )\n", 0},
		{"call-mixed-first", "abool = fsb(  \"x\", true )\n", 0},
		{"call-in-template", "astr = fv( \"p-${f1( var.foo )}\", \"b\" )\n", 0},
		{"anum-paren-lit", "anum = ( 42 )\n", 0},
		{"alst-paren", "alst = ( [ \"a\" ] )\n", 0},
		{"amap-paren-key-ref", "amap = { (var.foo) = var.foo }\n", 0},
		{"cmap-paren-key-ref", "cmap = { (var.foo) = \"v\" }\n", 0},
		{"res-count-twice", "res \"aws\" \"a\" {\n  count = 2\n  size = count.index\n}\nres \"aws\" \"b\" {\n  size = count.index\n}\n", 2},
		{"be-gcs-lifecycle", "be \"gcs\" {\n  lifecycle {\n    bogus = 1\n  }\n}\n", 2},
		{"be-s3-lifecycle", "be \"s3\" {\n  lifecycle {\n    bogus = 1\n    keep = true\n  }\n}\n", 2},
		{"be-partial-lifecycle", "be \"s3\" {\n  backend = \"other\"\n  zzz = 1\n  lifecycle {\n    bogus = 1\n  }\n}\n", 2},
		{"flagged-on", "flagged {\n  on = true\n  extra = \"x\"\n}\n", 2},
		{"flagged-off", "flagged {\n  on = false\n  extra = \"x\"\n}\n", 2},
		{"data-lst-separated", "data \"d\" {\n  lst {\n  }\n  id = \"i\"\n  lst {\n  }\n  lst {\n  }\n}\n", 2},
		{"locals-keyword-keys", "locals {\n  o = { true = \"x\", false = \"y\", null = \"z\", \"q\" = [ 1, { k = 2 } ] }\n}\n", 2},
		{"mod-two-refs", "mod \"m\" {\n  source = \"./m\"\n  input = var.foo\n}\nmod \"m\" {\n  source = \"./n\"\n  other = var.foo\n}\n", 2},
		{"valid-res-dynamic-nested", "res \"aws\" \"a\" {\n  size = 1\n  dynamic \"rule\" {\n    for_each = var.x\n    content {\n      port = 1\n      dynamic \"action\" {\n        for_each = var.x\n        content {\n          kind = \"k\"\n        }\n      }\n    }\n  }\n}\n", 2},
		{"valid-res-rule-dynamic-deep", "res \"aws\" \"a\" {\n  size = 1\n  rule {\n    dynamic \"action\" {\n      for_each = var.x\n      content {\n        kind = \"k\"\n        dynamic \"step\" {\n          for_each = var.x\n          content {\n            n = 1\n          }\n        }\n      }\n    }\n  }\n}\n", 2},
		{"valid-res-dynamic-three", "res \"aws\" \"a\" {\n  size = 1\n  dynamic \"rule\" {\n    for_each = var.x\n    content {\n      dynamic \"action\" {\n        for_each = var.x\n        content {\n          dynamic \"step\" {\n            for_each = var.x\n            content {\n              n = 1\n            }\n          }\n        }\n      }\n    }\n  }\n}\n", 2},
		{"valid-res-rule-action", "res \"aws\" \"a\" {\n  size = 1\n  rule {\n    port = 1\n    proto = \"tcp\"\n    action {\n      kind = \"k\"\n    }\n  }\n}\n", 2},
		{"res-self-rule-two", "res \"aws\" \"a\" {\n  size = 1\n  rule {\n    port = 80\n    proto = \"tcp\"\n    prio = self.size\n  }\n  rule {\n    port = 81\n  }\n}\n", 2},
		{"lk-ssh", "lk \"n\" \"ssh\" {\n  host = \"h\"\n  opt = 1\n}\n", 2},
		{"lk-other", "lk \"n\" \"zz\" {\n  opt = 1\n}\n", 2},
		{"askip-mixed", "askip = [ \"s\", f1( \"X\" ), var.foo ]\n", 0},
		{"call-nested-excess", "astr = f1( fobj( \"a\",  ) )\n", 0},
		{"hooked-gap", "hooked =  \"fo\"\n", 0},
		{"hooked-empty", "hooked = \n", 0},
		{"attr-as-block", "str {\n}\nnolabel = 1\n", 0},
		{"res-attr-as-block", "res \"aws\" \"a\" {\n  size {\n  }\n  rule = 1\n}\n", 2},
		{"res-and-dres", "res \"aws\" \"a\" {\n  size = 1\n}\ndres \"aws\" \"a\" {\n  lookup = \"x\"\n}\n", 2},
		{"dres-and-res", "dres \"aws\" \"a\" {\n  lookup = \"x\"\n}\nres \"aws\" \"a\" {\n  size = 1\n}\n", 2},
		{"data-arn", "data \"d\" {\n  arn = var.foo\n  id = \"i\"\n}\n", 2},
		{"aobj-func-k", "aobj = fob\n", 0},
		{"data-mp-unsorted", "data \"d\" {\n  mp \"https\" {\n    m = 1\n  }\n  mp \"http\" {\n    m = 2\n  }\n}\n", 2},
		{"tg", "tg \"t\" {\n  x = 1\n}\n", 2},
		{"any-idx-call", "any = f1( var.foo )[ var.bar ]\n", 0},
		{"any-idx-idx", "any = var.dyn[ var.bar ][ var.foo ]\n", 0},
		{"amap-cond-collection", "amap = true ? { k = var.foo } : { }\n", 0},
		{"alst-cond-collection", "alst = true ? [ var.foo ] : [ ]\n", 0},
		{"cobj-paren-after-plain", "cobj = { a = \"x\", (var.foo) = 1 }\n", 0},
		{"cobj-quoted-partial", "cobj = {\n  \"a\n}\n", 0},
		{"cobj-quoted-key-novalue", "cobj = { \"a\" = }\n", 0},
		{"blk-surplus-labels", "blk \"a\" \"b\" \"c\" {\n  req = 1\n}\n", 0},
		{"call-inner-in-unterminated", "astr = fv( f1( \"x\" ), \n", 0},
		{"res-nobrace", "res \"aws\" \"a\"\n", 2},
		{"mod-source-call", "mod \"m\" {\n  source = f1( \"./m\" )\n  input = \"i\"\n}\n", 2},
		{"be-backend-call", "be \"s3\" {\n  backend = f1( \"s\" )\n  bucket = \"b\"\n  special_opt = \"o\"\n}\n", 2},
		{"mod-source-template", "mod \"m\" {\n  source = \"${var.foo}\"\n  other = \"o\"\n}\n", 2},
		{"astr-not-partial", "astr = !v\n", 0},
		{"astr-not-dot", "astr = !var.\n", 0},
		{"any-neg-partial", "any = -va\n", 0},
		{"res-rule-dynamic-below-max", "res \"aws\" \"a\" {\n  size = 1\n  rule {\n  }\n  dynamic \"rule\" {\n    for_each = var.x\n    content {\n    }\n  }\n}\n", 2},
		{"valid-res-rule-dynamic-max", "res \"aws\" \"a\" {\n  size = 1\n  rule {\n  }\n  rule {\n  }\n  dynamic \"rule\" {\n    for_each = var.x\n    content {\n    }\n  }\n}\n", 2},
		{"res-self-plain", "res \"aws\" \"a\" {\n  size = 1\n  plain {\n    v = self\n  }\n  rule {\n    prio = self\n  }\n}\n", 2},
		{"mod-dep", "mod \"m\" {\n  source = \"./m\"\n  input = \"i\"\n}\n", 2},
		{"mod-nodep", "mod \"m\" {\n  source = \"./other\"\n  input = \"i\"\n}\n", 2},
		{"variable", "variable \"v\" {\n  type = list(string)\n  default = [ \"a\" ]\n}\n", 2},
		{"variable-notype", "variable \"w\" {\n}\n", 2},
		{"locals", "locals {\n  a = \"x\"\n  b = { k = 1 }\n  c = [ 1, 2 ]\n}\n", 2},
		{"locals-quoted-keys", "locals {\n  o = { \"k\" = 1, l = { \"x\" = \"y\" } }\n  m = { \"a b\" = [ 1 ] }\n}\n", 2},
		{"res-foreach-half", "res \"aws\" \"a\" {\n  for_each = var.x\n  size = each\n}\n", 2},
		{"res-self-half", "res \"aws\" \"a\" {\n  size = 1\n  marker = self\n}\n", 2},
		{"locals-nested", "locals {\n  c = [ [ \"a\", \"b\" ], [ \"c\" ] ]\n  o = { k = { x = 1, y = 2 }, l = { z = 3 } }\n  t = [ 1, 2, 3 ]\n}\n", 2},
		{"data", "data \"d\" {\n  id = \"i\"\n  lst {\n    v = \"a\"\n  }\n  lst {\n    v = \"b\"\n  }\n  obj {\n    w = 1\n  }\n}\n", 2},
		{"out-refs", "out \"o\" {\n  value = var.v\n  deps = [ aws.a, gcp.b ]\n}\n", 2},
		{"tags", "tags = { \"k\" = \"v\", l = \"w\" }\n", 2},
		{"amapt", "amapt = {\n  \"a b\" = \"x\"\n  c = var.foo\n}\n", 2},
		{"top-attr", "top = \"t\"\n", 2},
		{"sb-mixed", "top = \"t\"\nvariable \"v\" {\n  type = string\n}\nout \"o\" {\n  value = var.v\n}\n", 2},
	}
}
