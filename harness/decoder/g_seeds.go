package decoder

import (
	"github.com/hashicorp/hcl-lang/lang"
	"github.com/hashicorp/hcl-lang/reference"
	"github.com/hashicorp/hcl-lang/schema"
	"github.com/hashicorp/hcl/v2"
	"github.com/zclconf/go-cty/cty"
	"github.com/zclconf/go-cty/cty/function"
)

// The enumerated part of every G claim: seeds (token shapes) and the schema
// each is decoded under. The solver covers all layouts and cursors per seed.

type verifSeed struct {
	name   string
	src    string
	schema int // index into verifSchemas
}

func verifOpt(c schema.Constraint) *schema.AttributeSchema {
	return &schema.AttributeSchema{Constraint: c, IsOptional: true}
}

// SA: one attribute per constraint kind.
func verifSchemaSA() *schema.BodySchema {
	return &schema.BodySchema{
		Attributes: map[string]*schema.AttributeSchema{
			"str":  {Constraint: schema.LiteralType{Type: cty.String}, IsOptional: true, Description: lang.PlainText("a string")},
			"num":  verifOpt(schema.LiteralType{Type: cty.Number}),
			"flag": verifOpt(schema.LiteralType{Type: cty.Bool}),
			"lst":  verifOpt(schema.LiteralType{Type: cty.List(cty.String)}),
			"mp":   verifOpt(schema.LiteralType{Type: cty.Map(cty.String)}),
			"obj":  verifOpt(schema.LiteralType{Type: cty.Object(map[string]cty.Type{"a": cty.String, "b": cty.Number})}),
			"tup":  verifOpt(schema.LiteralType{Type: cty.Tuple([]cty.Type{cty.String, cty.Number})}),
			"kw":   verifOpt(schema.Keyword{Keyword: "foo", Name: "kw"}),
			"lvs":  verifOpt(schema.LiteralValue{Value: cty.StringVal("foo")}),
			"lvb":  verifOpt(schema.LiteralValue{Value: cty.True}),
			"lvn":  verifOpt(schema.LiteralValue{Value: cty.NumberIntVal(42)}),
			"one": verifOpt(schema.OneOf{
				schema.LiteralValue{Value: cty.StringVal("aa")},
				schema.LiteralValue{Value: cty.StringVal("ab")},
				schema.Keyword{Keyword: "kwd"},
			}),
			"astr":  verifOpt(schema.AnyExpression{OfType: cty.String}),
			"anum":  verifOpt(schema.AnyExpression{OfType: cty.Number}),
			"abool": verifOpt(schema.AnyExpression{OfType: cty.Bool}),
			"alst":  verifOpt(schema.AnyExpression{OfType: cty.List(cty.String)}),
			"aobj":  verifOpt(schema.AnyExpression{OfType: cty.Object(map[string]cty.Type{"a": cty.String})}),
			"amap":  verifOpt(schema.AnyExpression{OfType: cty.Map(cty.String)}),
			"any":   verifOpt(schema.AnyExpression{OfType: cty.DynamicPseudoType}),
			"ref":   verifOpt(schema.Reference{OfScopeId: lang.ScopeId("variable")}),
			"reft":  verifOpt(schema.Reference{OfType: cty.String}),
			"typ":   verifOpt(schema.TypeDeclaration{}),
			"clist": verifOpt(schema.List{Elem: schema.LiteralType{Type: cty.String}}),
			"cset":  verifOpt(schema.Set{Elem: schema.Keyword{Keyword: "foo"}}),
			"ctup":  verifOpt(schema.Tuple{Elems: []schema.Constraint{schema.LiteralType{Type: cty.String}, schema.LiteralType{Type: cty.Number}}}),
			"cmap":  verifOpt(schema.Map{Elem: schema.LiteralType{Type: cty.String}}),
			"cobj": verifOpt(schema.Object{Attributes: schema.ObjectAttributes{
				"a": {Constraint: schema.LiteralType{Type: cty.String}, IsRequired: true},
				"b": {Constraint: schema.AnyExpression{OfType: cty.Number}, IsOptional: true},
			}}),
		},
		Blocks: map[string]*schema.BlockSchema{
			"blk": {
				Labels: []*schema.LabelSchema{{Name: "name"}},
				Body: &schema.BodySchema{
					Attributes: map[string]*schema.AttributeSchema{
						"inner": verifOpt(schema.LiteralType{Type: cty.String}),
						"req":   {Constraint: schema.LiteralType{Type: cty.Number}, IsRequired: true},
					},
					Blocks: map[string]*schema.BlockSchema{
						"nested": {Body: &schema.BodySchema{Attributes: map[string]*schema.AttributeSchema{
							"deep": verifOpt(schema.AnyExpression{OfType: cty.String}),
						}}},
					},
				},
			},
			"nolabel": {
				Body:     &schema.BodySchema{Attributes: map[string]*schema.AttributeSchema{"x": verifOpt(schema.LiteralType{Type: cty.Number})}},
				MaxItems: 1,
			},
		},
	}
}

func verifFunctions() map[string]schema.FunctionSignature {
	return map[string]schema.FunctionSignature{
		"f0": {ReturnType: cty.String, Description: "no params"},
		"f1": {ReturnType: cty.String, Params: []function.Parameter{{Name: "a", Type: cty.String}}},
		"f2": {ReturnType: cty.Number, Params: []function.Parameter{{Name: "a", Type: cty.Number}, {Name: "b", Type: cty.Number}}},
		"fv": {ReturnType: cty.String, Params: []function.Parameter{{Name: "a", Type: cty.String}}, VarParam: &function.Parameter{Name: "rest", Type: cty.String}},
		"provider::ns::fn": {ReturnType: cty.String, Params: []function.Parameter{{Name: "a", Type: cty.String}}},
	}
}

func verifTargets() reference.Targets {
	return reference.Targets{
		{Addr: lang.Address{lang.RootStep{Name: "var"}, lang.AttrStep{Name: "bar"}}, ScopeId: lang.ScopeId("variable"), Type: cty.Number,
			RangePtr: &hcl.Range{Filename: "vars.tf", Start: hcl.Pos{Line: 3, Column: 1, Byte: 20}, End: hcl.Pos{Line: 3, Column: 10, Byte: 29}}},
		{Addr: lang.Address{lang.RootStep{Name: "var"}, lang.AttrStep{Name: "foo"}}, ScopeId: lang.ScopeId("variable"), Type: cty.String,
			RangePtr: &hcl.Range{Filename: "vars.tf", Start: hcl.Pos{Line: 1, Column: 1, Byte: 0}, End: hcl.Pos{Line: 1, Column: 10, Byte: 9}}},
	}
}

func verifSchemas(i int) *schema.BodySchema {
	switch i {
	case 1:
		return verifSchemaS1()
	}
	return verifSchemaSA()
}

func verifSeedList() []verifSeed {
	return []verifSeed{
		{"str", "str = \"foo\"\n", 0},
		{"str-gap", "str =  \"fo\"\n", 0},
		{"str-empty", "str = \n", 0},
		{"num", "num = 42\n", 0},
		{"flag", "flag =  true\n", 0},
		{"flag-partial", "flag = tr\n", 0},
		{"lst", "lst = [ \"a\", \"b\" ]\n", 0},
		{"mp", "mp = { k = \"v\" }\n", 0},
		{"obj", "obj = { a = \"x\", b = 1 }\n", 0},
		{"tup", "tup = [ \"a\", 1 ]\n", 0},
		{"kw", "kw = foo\n", 0},
		{"kw-partial", "kw =  f\n", 0},
		{"lvs", "lvs =  \"fo\"\n", 0},
		{"lvb", "lvb =  true\n", 0},
		{"lvn", "lvn = 4\n", 0},
		{"one", "one = \"a\"\n", 0},
		{"astr-lit", "astr = \"x\"\n", 0},
		{"astr-ref", "astr = var.foo\n", 0},
		{"astr-partial-ref", "astr = var.\n", 0},
		{"astr-tpl", "astr = \"a ${ var.foo } b\"\n", 0},
		{"astr-func", "astr = f1( \"x\" )\n", 0},
		{"astr-func-partial", "astr = f\n", 0},
		{"astr-func-ns", "astr = provider::ns::f\n", 0},
		{"astr-cond", "astr = true ? \"a\" : var.foo\n", 0},
		{"anum-op", "anum = 1 + var.bar\n", 0},
		{"anum-paren", "anum = ( 1 + 2 )\n", 0},
		{"abool-not", "abool = ! true\n", 0},
		{"alst", "alst = [ var.foo, \"b\" ]\n", 0},
		{"alst-for", "alst = [ for x in var.foo : x ]\n", 0},
		{"aobj", "aobj = { a = var.foo }\n", 0},
		{"amap", "amap = { k = var.foo }\n", 0},
		{"any-idx", "any = var.foo[0]\n", 0},
		{"any-splat", "any = var.foo[*].id\n", 0},
		{"ref", "ref = var.foo\n", 0},
		{"ref-partial", "ref = var.f\n", 0},
		{"reft", "reft = var.foo\n", 0},
		{"typ", "typ = list( string )\n", 0},
		{"typ-obj", "typ = object({ a = string })\n", 0},
		{"typ-partial", "typ = li\n", 0},
		{"clist", "clist = [ \"a\", \"b\" ]\n", 0},
		{"clist-empty", "clist = [ ]\n", 0},
		{"cset", "cset = [ foo ]\n", 0},
		{"ctup", "ctup = [ \"a\", 1 ]\n", 0},
		{"cmap", "cmap = { k = \"v\" }\n", 0},
		{"cmap-empty", "cmap = { }\n", 0},
		{"cobj", "cobj = { a = \"x\", b = 1 }\n", 0},
		{"cobj-empty", "cobj = { }\n", 0},
		{"cobj-partial", "cobj = {\n  a\n}\n", 0},
		{"blk", "blk \"a\" {\n  inner = \"y\"\n  req = 1\n}\n", 0},
		{"blk-nested", "blk \"a\" {\n  nested {\n    deep = \"z\"\n  }\n}\n", 0},
		{"blk-nolabel", "blk {\n}\n", 0},
		{"blk-partial-label", "blk \"a\n", 0},
		{"blk-oneline", "nolabel { x = 1 }\n", 0},
		{"two-nolabel", "nolabel {\n}\nnolabel {\n}\n", 0},
		{"unknown-attr", "zzz = 1\nstr = \"a\"\n", 0},
		{"unknown-blk", "qqq \"x\" {\n  a = 1\n}\n", 0},
		{"prefix", "s\n", 0},
		{"empty", "\n", 0},
		{"multibyte", "str = \"héllo wörld ✓\"\n", 0},
		{"heredoc", "str = <<EOT\nhello\nEOT\n", 0},
		{"unterminated-call", "astr = f1( \"x\", \n", 0},
		{"comment", "# c\nstr = \"x\" # t\n", 0},
	}
}
