package decoder

import (
	"context"
	"unicode/utf8"

	"github.com/hashicorp/hcl-lang/lang"
	"github.com/hashicorp/hcl-lang/reference"
	"github.com/hashicorp/hcl/v2"
)

// C18: inserting blank or comment lines before a top-level item (or after the
// last one) changes nothing in a result except that positions move. File A is
// the seed itself; file B is the seed with a symbolic number (0..2) of
// symbolic blank/comment lines in up to two line slots. Every query is asked
// on A at a seed position q and on B at the image of q.

const fa, fb = "a.tf", "b.tf"

func verifPosAt(src string, off int) (hcl.Pos, bool) {
	if off < len(src) && !utf8.RuneStart(src[off]) {
		return hcl.Pos{}, false
	}
	p := hcl.Pos{Line: 1, Column: 1, Byte: 0}
	for i := 0; i < off; {
		_, n := utf8.DecodeRuneInString(src[i:])
		if src[i] == '\n' {
			p.Line++
			p.Column = 1
		} else {
			p.Column++
		}
		i += n
		p.Byte = i
	}
	return p, true
}

func verifTwoDecoders(i int) (*PathDecoder, *PathDecoder, verifSeed) {
	s := verifSeedList()[i]
	verifShiftSeedLen = len(s.src)
	A := verifParseHCL(s.src, fa)
	B := verifStretch(s.src, fb, 0, 2)
	mk := func(name string, f *hcl.File) *PathDecoder {
		pc := &PathContext{Schema: verifSchemas(s.schema), Files: map[string]*hcl.File{name: f}, Functions: verifFunctions(), ReferenceTargets: verifTargets(), Validators: verifValidators()}
		d := NewDecoder(&verifPathReader{paths: map[string]*PathContext{"dir": pc}})
		d.SetContext(NewDecoderContext())
		pd, _ := d.Path(lang.Path{Path: "dir"})
		return pd
	}
	return mk(fa, A), mk(fb, B), s
}

// verifMoved: rb is the image of ra (file names aside).
var verifShiftSeedLen int

// verifMovedSubject: like verifMoved, but a diagnostic whose subject is the top-level
// body (the whole file) keeps starting at the first byte.
func verifMovedSubject(ra, rb hcl.Range) bool {
	if ra.Start.Byte == 0 && ra.End.Byte == verifShiftSeedLen && verifShiftSeedLen > 0 {
		// the range of the whole file (top-level body): it still starts at the first byte
		e := verifImagePos(fb, ra.End, true)
		return verifAnd(verifAnd(rb.Start.Line == 1, verifAnd(rb.Start.Column == 1, rb.Start.Byte == 0)),
			verifAnd(rb.End.Line == e.Line, verifAnd(rb.End.Column == e.Column, rb.End.Byte == e.Byte)))
	}
	return verifMoved(ra, rb)
}

func verifMoved(ra, rb hcl.Range) bool {
	s := verifImagePos(fb, ra.Start, false)
	e := verifImagePos(fb, ra.End, ra.End.Byte > ra.Start.Byte)
	return verifAnd(verifAnd(rb.Start.Line == s.Line, verifAnd(rb.Start.Column == s.Column, rb.Start.Byte == s.Byte)),
		verifAnd(rb.End.Line == e.Line, verifAnd(rb.End.Column == e.Column, rb.End.Byte == e.Byte)))
}

func verifSeedCursor(s verifSeed) (hcl.Pos, hcl.Pos) {
	// quick tier: every third byte offset (plus the end of the file); thorough: all
	stride := verifBound("cursor-stride", 3, 1)
	k := verifChoice("cursor", len(s.src)/stride+2) * stride
	if k > len(s.src) {
		k = len(s.src)
	}
	qa, ok := verifPosAt(s.src, k)
	verifAssume(ok)
	return qa, verifImagePos(fb, qa, false)
}

func VerifP_C18_Shift_Hover_N() int            { return len(verifSeedList()) }
func VerifP_C18_Shift_Hover_Name(i int) string { return verifSeedList()[i].name }
func VerifP_C18_Shift_Hover(i int) {
	da, db, s := verifTwoDecoders(i)
	qa, qb := verifSeedCursor(s)
	ha, ea := da.HoverAtPos(context.Background(), fa, qa)
	hb, eb := db.HoverAtPos(context.Background(), fb, qb)
	verifAssert((ea == nil) == (eb == nil), "C18:hover-error-same")
	verifAssert((ha == nil) == (hb == nil), "C18:hover-presence-same")
	if ha != nil && hb != nil {
		verifAssert(ha.Content.Value == hb.Content.Value, "C18:hover-content-same")
		verifAssert(verifMoved(ha.Range, hb.Range), "C18:hover-range-moved")
	}
	verifReach("end")
}

func VerifP_C18_Shift_Completion_N() int            { return len(verifSeedList()) }
func VerifP_C18_Shift_Completion_Name(i int) string { return verifSeedList()[i].name }
func VerifP_C18_Shift_Completion(i int) {
	da, db, s := verifTwoDecoders(i)
	qa, qb := verifSeedCursor(s)
	ca, ea := da.CompletionAtPos(context.Background(), fa, qa)
	cb, eb := db.CompletionAtPos(context.Background(), fb, qb)
	verifAssert((ea == nil) == (eb == nil), "C18:completion-error-same")
	verifAssert(len(ca.List) == len(cb.List), "C18:completion-count-same")
	verifAssert(ca.IsComplete == cb.IsComplete, "C18:completion-complete-flag-same")
	for k := range ca.List {
		if k < len(cb.List) {
			a, b := ca.List[k], cb.List[k]
			verifAssert(a.Label == b.Label, "C18:completion-label-same")
			verifAssert(verifAnd(a.TextEdit.NewText == b.TextEdit.NewText, a.TextEdit.Snippet == b.TextEdit.Snippet), "C18:completion-text-same")
			verifAssert(verifMoved(a.TextEdit.Range, b.TextEdit.Range), "C18:completion-range-moved")
		}
	}
	verifReach("end")
}

func VerifP_C18_Shift_File_N() int            { return len(verifSeedList()) }
func VerifP_C18_Shift_File_Name(i int) string { return verifSeedList()[i].name }
func VerifP_C18_Shift_File(i int) {
	da, db, _ := verifTwoDecoders(i)
	ctx := context.Background()
	ta, _ := da.SemanticTokensInFile(ctx, fa)
	tb, _ := db.SemanticTokensInFile(ctx, fb)
	verifAssert(len(ta) == len(tb), "C18:semtok-count-same")
	for k := range ta {
		if k < len(tb) {
			verifAssert(ta[k].Type == tb[k].Type, "C18:semtok-type-same")
			verifAssert(verifMoved(ta[k].Range, tb[k].Range), "C18:semtok-range-moved")
		}
	}
	ya, _ := da.SymbolsInFile(fa)
	yb, _ := db.SymbolsInFile(fb)
	verifAssert(len(ya) == len(yb), "C18:symbols-count-same")
	for k := range ya {
		if k < len(yb) {
			verifAssert(ya[k].Name() == yb[k].Name(), "C18:symbol-name-same")
			verifAssert(verifMoved(ya[k].Range(), yb[k].Range()), "C18:symbol-range-moved")
		}
	}
	va, _ := da.ValidateFile(ctx, fa)
	vb, _ := db.ValidateFile(ctx, fb)
	verifAssert(len(va) == len(vb), "C18:diagnostics-count-same")
	for k := range va {
		if k < len(vb) {
			verifAssert(va[k].Summary == vb[k].Summary, "C18:diagnostic-summary-same")
			if va[k].Subject != nil && vb[k].Subject != nil {
				verifAssert(verifMovedSubject(*va[k].Subject, *vb[k].Subject), "C18:diagnostic-subject-moved")
			}
		}
	}
	oa, _ := da.CollectReferenceOrigins()
	ob, _ := db.CollectReferenceOrigins()
	verifAssert(len(oa) == len(ob), "C18:origins-count-same")
	for k := range oa {
		if k < len(ob) {
			verifAssert(verifMoved(oa[k].OriginRange(), ob[k].OriginRange()), "C18:origin-range-moved")
		}
	}
	ra, _ := da.CollectReferenceTargets()
	rb, _ := db.CollectReferenceTargets()
	verifAssert(len(ra) == len(rb), "C18:targets-count-same")
	for k := range ra {
		if k < len(rb) {
			verifAssert(ra[k].Addr.String() == rb[k].Addr.String(), "C18:target-address-same")
			if ra[k].RangePtr != nil && rb[k].RangePtr != nil {
				verifAssert(verifMoved(*ra[k].RangePtr, *rb[k].RangePtr), "C18:target-range-moved")
			}
		}
	}
	verifReach("end")
}

// C18 over two files: the same address is declared in both files of a path (an override file
// redeclaring a variable); lines are inserted in the first file only. The collected targets, in
// their order, and what hover says in the untouched file stay the same up to the shift.
func VerifH_C18_Shift_TwoFiles() {
	main := "variable \"v\" {\n  type = string\n}\n"
	over := "# override\n\nvariable \"v\" {\n  type = number\n}\nout \"o\" {\n  value = var.v\n}\n"
	verifShiftSeedLen = len(main)
	A := verifParseHCL(main, fa)
	B := verifStretch(main, fb, 0, 2)
	mk := func(name string, f *hcl.File) (*Decoder, *PathDecoder, *PathContext) {
		pc := &PathContext{Schema: verifSchemas(2), Files: map[string]*hcl.File{name: f, "o.tf": verifParseHCL(over, "o.tf")}, Functions: verifFunctions()}
		d := NewDecoder(&verifPathReader{paths: map[string]*PathContext{"dir": pc}})
		d.SetContext(NewDecoderContext())
		pd, _ := d.Path(lang.Path{Path: "dir"})
		if ts, err := pd.CollectReferenceTargets(); err == nil {
			pc.ReferenceTargets = ts
		}
		if os, err := pd.CollectReferenceOrigins(); err == nil {
			pc.ReferenceOrigins = os
		}
		return d, pd, pc
	}
	_, da, pa := mk(fa, A)
	_, db, pb := mk(fb, B)
	ra, rb := pa.ReferenceTargets, pb.ReferenceTargets
	verifAssert(len(ra) == len(rb), "C18:targets-count-same")
	for k := range ra {
		if k < len(rb) {
			verifAssert(ra[k].Addr.String() == rb[k].Addr.String(), "C18:target-address-same")
			verifAssert(ra[k].Type.Equals(rb[k].Type), "C18:target-order-same-across-files")
			if ra[k].RangePtr != nil && rb[k].RangePtr != nil {
				if ra[k].RangePtr.Filename == "o.tf" {
					verifAssert(verifSameRange(*ra[k].RangePtr, *rb[k].RangePtr), "C18:target-in-untouched-file-unchanged")
				} else {
					verifAssert(verifMoved(*ra[k].RangePtr, *rb[k].RangePtr), "C18:target-range-moved")
				}
			}
		}
	}
	// hover on the reference written in the untouched file
	q := hcl.Pos{Line: 7, Column: 13, Byte: 67}
	ha, ea := da.HoverAtPos(context.Background(), "o.tf", q)
	hb, eb := db.HoverAtPos(context.Background(), "o.tf", q)
	verifAssert((ea == nil) == (eb == nil), "C18:hover-error-same")
	verifAssert((ha == nil) == (hb == nil), "C18:hover-presence-same")
	if ha != nil && hb != nil {
		verifAssert(ha.Content.Value == hb.Content.Value, "C18:hover-in-untouched-file-same")
	}
	verifReach("end")
}

// C18 over two files stamped from one template: both files of the path write a reference to the
// same address at the same line and column; lines are inserted in the first file only. The origins
// collected for the path, and hover / go-to-definition on the reference in the untouched file,
// stay the same up to the shift.
func VerifH_C18_Shift_TwoFiles_Origins() {
	main := "out \"m\" {\n  value = var.v\n}\n"
	over := "out \"o\" {\n  value = var.v\n}\nvariable \"v\" {\n  type = number\n}\n"
	verifShiftSeedLen = len(main)
	A := verifParseHCL(main, fa)
	B := verifStretch(main, fb, 0, 2)
	mk := func(name string, f *hcl.File) (*PathDecoder, *PathContext) {
		pc := &PathContext{Schema: verifSchemas(2), Files: map[string]*hcl.File{name: f, "o.tf": verifParseHCL(over, "o.tf")}, Functions: verifFunctions()}
		d := NewDecoder(&verifPathReader{paths: map[string]*PathContext{"dir": pc}})
		d.SetContext(NewDecoderContext())
		pd, _ := d.Path(lang.Path{Path: "dir"})
		if ts, err := pd.CollectReferenceTargets(); err == nil {
			pc.ReferenceTargets = ts
		}
		if os, err := pd.CollectReferenceOrigins(); err == nil {
			pc.ReferenceOrigins = os
		}
		return pd, pc
	}
	da, pa := mk(fa, A)
	db, pb := mk(fb, B)
	oa, ob := pa.ReferenceOrigins, pb.ReferenceOrigins
	verifAssert(len(oa) == len(ob), "C18:origins-count-same")
	for k := range oa {
		if k < len(ob) {
			if oa[k].OriginRange().Filename == "o.tf" {
				verifAssert(verifSameRange(oa[k].OriginRange(), ob[k].OriginRange()), "C18:origin-in-untouched-file-unchanged")
			} else {
				verifAssert(verifMoved(oa[k].OriginRange(), ob[k].OriginRange()), "C18:origin-range-moved")
			}
			ma, oka := oa[k].(reference.MatchableOrigin)
			mb, okb := ob[k].(reference.MatchableOrigin)
			verifAssert(oka == okb, "C18:origin-kind-same")
			if oka && okb {
				verifAssert(len(ma.OriginConstraints()) == len(mb.OriginConstraints()), "C18:origin-constraints-same")
			}
		}
	}
	// hover and go-to-definition on the reference written in the untouched file
	q, _ := verifPosAt(over, len("out \"o\" {\n  value = va"))
	ha, ea := da.HoverAtPos(context.Background(), "o.tf", q)
	hb, eb := db.HoverAtPos(context.Background(), "o.tf", q)
	verifAssert((ea == nil) == (eb == nil), "C18:hover-error-same")
	verifAssert((ha == nil) == (hb == nil), "C18:hover-presence-same")
	if ha != nil && hb != nil {
		verifAssert(ha.Content.Value == hb.Content.Value, "C18:hover-in-untouched-file-same")
	}
	ta, _ := da.SemanticTokensInFile(context.Background(), "o.tf")
	tb, _ := db.SemanticTokensInFile(context.Background(), "o.tf")
	verifAssert(len(ta) == len(tb), "C18:semtok-count-in-untouched-file-same")
	verifAssert(len(oa) == 2, "C10:one-origin-per-written-reference-in-each-file")
	verifReach("end")
}

// C18 for find-references: two references to one declaration (kept in another file) on lines 1
// and 9 of the file that gets the inserted lines - so that the line numbers pass from one digit to
// two. The origins reported for the declaration are the same, in the same order, up to the shift.
func VerifH_C18_Shift_Lookups() {
	main := "any = var.foo\n# 2\n# 3\n# 4\n# 5\n# 6\n# 7\n# 8\nastr = var.foo\nanum = var.bar\n"
	verifShiftSeedLen = len(main)
	A := verifParseHCL(main, fa)
	B := verifStretch(main, fb, 0, 2)
	path := lang.Path{Path: "dir"}
	mk := func(name string, f *hcl.File) *Decoder {
		pc := &PathContext{Schema: verifSchemas(0), Files: map[string]*hcl.File{name: f}, Functions: verifFunctions(), ReferenceTargets: verifTargets()}
		d := NewDecoder(&verifPathReader{paths: map[string]*PathContext{"dir": pc}})
		d.SetContext(NewDecoderContext())
		pd, _ := d.Path(path)
		if os, err := pd.CollectReferenceOrigins(); err == nil {
			pc.ReferenceOrigins = os
		}
		return d
	}
	da, db := mk(fa, A), mk(fb, B)
	// the declaration of var.foo (verifTargets): vars.tf 1,1,0
	decl := hcl.Pos{Line: 1, Column: 1, Byte: 0}
	oa := da.ReferenceOriginsTargetingPos(path, "vars.tf", decl)
	ob := db.ReferenceOriginsTargetingPos(path, "vars.tf", decl)
	verifAssert(len(oa) == 2, "C11:find-references-reports-both-references")
	verifAssert(len(oa) == len(ob), "C18:find-references-count-same")
	for k := range oa {
		if k < len(ob) {
			verifAssert(verifMoved(oa[k].Range, ob[k].Range), "C18:find-references-same-order-and-moved")
		}
	}
	verifReach("end")
}
