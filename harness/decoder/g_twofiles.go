package decoder

import (
	"context"
	"strings"

	"github.com/hashicorp/hcl-lang/lang"
	"github.com/hashicorp/hcl/v2"
)

// Two files of one path stamped from one template: the same layout, a different reference of the
// same length at the same line and column. What a position-bound query says in one file is about
// that file's text (C12 hover, C13 tokens, C11 go-to-definition); the other file is symbolic in
// its leading blank lines, so that the positions coincide on one path of the exploration and
// differ on the others.
func VerifH_C11C12C13_TwoFilesSameLayout() {
	api := "out \"a\" {\n  value = var.foo\n}\n"
	web := "out \"b\" {\n  value = var.bar\n}\n"
	fApi := verifStretch(api, "api.tf", 0, 1)
	fWeb := verifParseHCL(web, "web.tf")
	pc := &PathContext{Schema: verifSchemas(2), Files: map[string]*hcl.File{"api.tf": fApi, "web.tf": fWeb}, Functions: verifFunctions(), ReferenceTargets: verifTargets()}
	dd := NewDecoder(&verifPathReader{paths: map[string]*PathContext{"dir": pc}})
	dd.SetContext(NewDecoderContext())
	d, _ := dd.Path(lang.Path{Path: "dir"})
	if os, err := d.CollectReferenceOrigins(); err == nil {
		pc.ReferenceOrigins = os
	}
	ctx := context.Background()
	// every byte of `var.bar` in web.tf
	start := len("out \"b\" {\n  value = ")
	k := verifChoice("cursor", len("var.bar"))
	pos, _ := verifPosAt(web, start+k)
	h, err := d.HoverAtPos(ctx, "web.tf", pos)
	verifAssert(err == nil && h != nil, "C12:hover-on-a-resolved-reference")
	if h != nil {
		verifAssert(strings.Contains(h.Content.Value, "var.bar") && !strings.Contains(h.Content.Value, "var.foo"), "C12:reference-hover-names-the-reference-under-the-cursor")
		verifAssert(strings.Contains(h.Content.Value, "number"), "C12:reference-hover-shows-the-type-of-its-own-target")
	}
	ts, terr := dd.ReferenceTargetsForOriginAtPos(lang.Path{Path: "dir"}, "web.tf", pos)
	verifAssert(terr == nil && len(ts) == 1, "C11:one-declaration-for-the-reference-under-the-cursor")
	for _, t := range ts {
		verifAssert(t.Range.Start.Byte == 20 && t.Range.Filename == "vars.tf", "C11:go-to-definition-leads-to-the-declaration-of-the-reference-under-the-cursor")
	}
	toks, _ := d.SemanticTokensInFile(ctx, "web.tf")
	steps := 0
	for _, t := range toks {
		if t.Type == lang.TokenReferenceStep {
			steps++
		}
	}
	verifAssert(steps == 2, "C13:reference-steps-of-this-file's-reference")
	verifReach("end")
}
