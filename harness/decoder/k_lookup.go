package decoder

import (
	"github.com/hashicorp/hcl-lang/lang"
	"github.com/hashicorp/hcl-lang/reference"
	"github.com/hashicorp/hcl/v2"
	"github.com/zclconf/go-cty/cty"
)

// C11 (K): go-to-definition and find-references through the public Decoder
// API over two paths whose contexts hold targets and origins with symbolic
// ranges. Collector invariants assumed (each is asserted where targets are
// collected, C09): DefRange inside Range, nested range inside parent range,
// distinct top-level declarations do not overlap.

func verifLineRange(tag, file string, lo, hi int) hcl.Range {
	s := verifInt(tag+"s", lo, hi)
	e := verifInt(tag+"e", lo, hi)
	verifAssume(s < e)
	return hcl.Range{Filename: file, Start: hcl.Pos{Line: 1, Column: s + 1, Byte: s}, End: hcl.Pos{Line: 1, Column: e + 1, Byte: e}}
}

func verifChoiceIf(vary bool, name string, n int, dflt int) int {
	if vary {
		return verifChoice(name, n)
	}
	return dflt
}

func verifInside(in, out hcl.Range) bool {
	return verifAnd(out.Start.Byte <= in.Start.Byte, in.End.Byte <= out.End.Byte)
}

func VerifP_C02C11_Inverse_N() int { return 4 }
func VerifP_C02C11_Inverse_Name(i int) string {
	return []string{"local-origin", "path-origin", "block-local-names", "path-origin-same-directory"}[i]
}
func VerifP_C02C11_Inverse(mode int) {
	p1, p2 := lang.Path{Path: "p1"}, lang.Path{Path: "p2"}
	if mode == 3 {
		// the other path is the same directory in another language (*.tf and *.tfvars of one module);
		// otherwise the instance is the path-origin one
		p2 = lang.Path{Path: "p1", LanguageID: "vars"}
		mode = 1
	}
	k2 := verifKeyOfPath(p2)
	typ := []cty.Type{cty.NilType, cty.String, cty.DynamicPseudoType}[verifChoice("ttype", 3)]
	scope := []lang.ScopeId{"variable", "other"}[verifChoice("tscope", 2)]
	mkTargets := func(tag, file string) reference.Targets {
		// a block-like declaration with one nested attribute declaration, and a second declaration
		r0 := verifLineRange(tag+"r0", file, 0, 40)
		d0 := verifLineRange(tag+"d0", file, 0, 40)
		verifAssume(verifInside(d0, r0))
		rn := verifLineRange(tag+"rn", file, 0, 40)
		dn := verifLineRange(tag+"dn", file, 0, 40)
		verifAssume(verifAnd(verifInside(rn, r0), verifInside(dn, rn)))
		if verifChoiceIf(mode == 1 && tag == "b", tag+"nshare", 2, 0) == 1 {
			// a nested declaration that shares extent and header with its parent (targetables of a block)
			rn, dn = r0, d0
		} else {
			verifAssume(verifOr(dn.End.Byte <= d0.Start.Byte, d0.End.Byte <= dn.Start.Byte))
		}
		r1 := verifLineRange(tag+"r1", file, 41, 80)
		d1 := verifLineRange(tag+"d1", file, 41, 80)
		verifAssume(verifInside(d1, r1))
		t0 := reference.Target{Addr: lang.Address{lang.RootStep{Name: "var"}, lang.AttrStep{Name: "foo"}}, ScopeId: scope, Type: typ, RangePtr: &r0, DefRangePtr: &d0}
		t0.NestedTargets = reference.Targets{{Addr: lang.Address{lang.RootStep{Name: "var"}, lang.AttrStep{Name: "foo"}, lang.AttrStep{Name: "n"}}, ScopeId: scope, Type: cty.String, RangePtr: &rn, DefRangePtr: &dn}}
		t1 := reference.Target{Addr: lang.Address{lang.RootStep{Name: "var"}, lang.AttrStep{Name: "bar"}}, ScopeId: scope, Type: cty.Number, RangePtr: &r1, DefRangePtr: &d1}
		if mode == 1 && tag == "b" && verifChoice(tag+"selfref", 2) == 1 {
			// a self-referable declaration: it also has a block-local name, usable inside its extent
			tfr := r0
			t0.LocalAddr = lang.Address{lang.RootStep{Name: "self"}}
			t0.TargetableFromRangePtr = &tfr
		}
		if mode == 2 {
			// block-local names: count.index inside r0 only
			tfr := r0
			t0.LocalAddr = lang.Address{lang.RootStep{Name: "count"}, lang.AttrStep{Name: "index"}}
			t0.TargetableFromRangePtr = &tfr
			tfr1 := r1
			// the second block may live in another file of the same path (same byte offsets)
			if verifChoice("t1otherfile", 2) == 1 {
				tfr1.Filename = "other.tf"
				r1.Filename = "other.tf"
				d1.Filename = "other.tf"
			}
			t1.LocalAddr = lang.Address{lang.RootStep{Name: "count"}, lang.AttrStep{Name: "index"}}
			t1.TargetableFromRangePtr = &tfr1
		}
		return reference.Targets{t0, t1}
	}
	oAddr := []lang.Address{
		{lang.RootStep{Name: "var"}, lang.AttrStep{Name: "foo"}},
		{lang.RootStep{Name: "var"}, lang.AttrStep{Name: "foo"}, lang.AttrStep{Name: "n"}},
		{lang.RootStep{Name: "var"}, lang.AttrStep{Name: "bar"}},
		{lang.RootStep{Name: "var"}, lang.AttrStep{Name: "foo"}, lang.AttrStep{Name: "other"}},
		{lang.RootStep{Name: "count"}, lang.AttrStep{Name: "index"}},
	}[verifChoiceIf(mode != 2, "oaddr", 5, 4)]
	oCons := reference.OriginConstraints{{OfScopeId: []lang.ScopeId{"", "variable"}[verifChoiceIf(mode != 2, "oscope", 2, 0)], OfType: []cty.Type{cty.NilType, cty.String, cty.DynamicPseudoType}[verifChoiceIf(mode != 2, "otype", 3, 1)]}}
	if verifChoiceIf(mode != 2, "nocons", 2, 0) == 1 {
		oCons = nil
	}
	oRange := verifLineRange("or", "o.tf", 0, 90)
	var origin reference.Origin
	targetPath := p1
	if mode == 1 {
		origin = reference.PathOrigin{Range: oRange, TargetAddr: oAddr, TargetPath: p2, Constraints: oCons}
		targetPath = p2
	} else {
		origin = reference.LocalOrigin{Range: oRange, Addr: oAddr, Constraints: oCons}
	}
	file1 := "o.tf"
	if mode == 2 {
		// block-local names are looked up from inside the same file
		file1 = "o.tf"
	}
	ctx1 := &PathContext{ReferenceTargets: mkTargets("a", file1), ReferenceOrigins: reference.Origins{origin}, Files: map[string]*hcl.File{}}
	ctx2 := &PathContext{ReferenceTargets: mkTargets("b", "t2.tf"), ReferenceOrigins: reference.Origins{}, Files: map[string]*hcl.File{}}
	twin := mode == 0 && verifChoice("twin", 2) == 1
	if twin {
		// a second path refers to the same declaration of p1 from an identically named file at the same range
		ctx2.ReferenceOrigins = reference.Origins{reference.PathOrigin{Range: oRange, TargetAddr: oAddr, TargetPath: p1, Constraints: oCons}}
	}
	// a path listed first whose context may be unreadable
	ctx0 := &PathContext{ReferenceTargets: reference.Targets{}, ReferenceOrigins: reference.Origins{}, Files: map[string]*hcl.File{}}
	ctxs := map[string]*PathContext{"p0": ctx0, "p1": ctx1, k2: ctx2}
	d := NewDecoder(&verifFaultyReader{order: []string{"p0", "p1", k2}, ctxs: ctxs, fail: map[string]bool{"p0": verifBool("p0-unreadable")}})
	d.SetContext(NewDecoderContext())

	pos := hcl.Pos{Line: 1, Byte: verifInt("pos", 0, 90)}
	pos.Column = pos.Byte + 1
	verifAssume(verifAnd(oRange.Start.Byte <= pos.Byte, pos.Byte < oRange.End.Byte))
	verifFreeze(ctx1, ctx2)
	found, err := d.ReferenceTargetsForOriginAtPos(p1, "o.tf", pos)
	if err == nil {
		for _, t := range found {
			verifAssert(t.Path.Equals(targetPath), "C11:resolved-against-the-right-path")
			if mode == 2 && oAddr[0].String() == "count" {
				// a block-local name resolves only to the enclosing block's declaration
				verifAssert(verifAnd(t.Range.Filename == "o.tf", verifAnd(t.Range.Start.Byte <= oRange.End.Byte, oRange.Start.Byte <= t.Range.End.Byte)), "C11:local-name-resolves-only-inside-its-block")
			}
			if t.DefRangePtr == nil {
				continue
			}
			// find-references asked anywhere inside the definition reports the origin
			q := hcl.Pos{Line: 1, Byte: verifInt("q", 0, 90)}
			q.Column = q.Byte + 1
			verifAssume(verifAnd(t.DefRangePtr.Start.Byte <= q.Byte, q.Byte < t.DefRangePtr.End.Byte))
			back := d.ReferenceOriginsTargetingPos(t.Path, t.DefRangePtr.Filename, q)
			ok, ok2 := false, false
			for _, o := range back {
				// every reported origin is an origin of the path it is reported for
				own := false
				if c, known := ctxs[verifKeyOfPath(o.Path)]; known {
					for _, po := range c.ReferenceOrigins {
						own = verifOr(own, verifAnd(po.OriginRange().Filename == o.Range.Filename, verifAnd(po.OriginRange().Start.Byte == o.Range.Start.Byte, po.OriginRange().End.Byte == o.Range.End.Byte)))
					}
				}
				verifAssert(own, "C02:lookup-origin-belongs-to-the-path-it-is-reported-for")
				if o.Path.Equals(p1) && o.Range.Filename == "o.tf" {
					ok = verifOr(ok, verifAnd(o.Range.Start.Byte == oRange.Start.Byte, o.Range.End.Byte == oRange.End.Byte))
				}
				if o.Path.Equals(p2) && o.Range.Filename == "o.tf" {
					ok2 = verifOr(ok2, verifAnd(o.Range.Start.Byte == oRange.Start.Byte, o.Range.End.Byte == oRange.End.Byte))
				}
			}
			verifAssert(ok, "C11:find-references-at-definition-reports-the-origin")
			if twin {
				verifAssert(ok2, "C11:find-references-reports-origins-of-every-path")
			}
		}
	}
	verifNoWrites("C04:lookup-writes", true)
	verifNoWrites("C05:lookup-writes", false)
	verifReach("end")
}
