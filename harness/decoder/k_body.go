package decoder

import (
	"context"

	"github.com/hashicorp/hcl-lang/lang"
	"github.com/hashicorp/hcl-lang/schema"
	"github.com/hashicorp/hcl/v2"
	"github.com/hashicorp/hcl/v2/hclsyntax"
	"github.com/zclconf/go-cty/cty"
)

// C07 (K): bodySchemaCandidates against a specification re-stated from the
// schema documentation. Names come from a menu that contains prefix relations,
// an attribute/block clash and the extension names; flags, limits, which items
// the body already holds and the typed prefix are symbolic.

var verifNameMenu = []string{"ab", "abc", "b", "ba", "count", "for_each"}

func verifPrefixOf(p, s string) bool {
	return verifAnd(len(p) <= len(s), s[:verifConcretize(len(p), 0, 3)%(len(s)+1)] == p)
}

// The harness is split into three instances so that the enumerated dimensions
// stay small: 0 varies the attributes, 1 the blocks, 2 the extensions; what an
// instance does not vary is pinned to its first value.
func VerifP_C07_BodyCandidates_N() int { return 3 }
func VerifP_C07_BodyCandidates_Name(i int) string {
	return []string{"attributes", "blocks", "extensions"}[i]
}
func VerifP_C07_BodyCandidates(mode int) {
	pick := func(name string, n int, m int) int {
		if mode == m {
			return verifChoice(name, n)
		}
		return 0
	}
	flag := func(name string, m int, dflt bool) bool {
		if mode == m {
			return verifBool(name)
		}
		return dflt
	}
	// schema: two attributes and two block types with names from the menu
	a0 := "ab"
	a1 := []string{"abc", "b"}[verifChoice("a1", 2)]
	_ = pick
	b0, b1 := "b", "ba"
	mkAttr := func(tag string) *schema.AttributeSchema {
		return &schema.AttributeSchema{Constraint: schema.LiteralType{Type: cty.String},
			IsOptional: flag(tag+"opt", 0, true), IsRequired: flag(tag+"req", 0, false), IsComputed: flag(tag+"comp", 0, false)}
	}
	maxOf := func(name string) uint64 {
		if mode == 1 {
			return uint64(verifInt(name, 0, 2))
		}
		return 0
	}
	bs := &schema.BodySchema{
		Attributes: map[string]*schema.AttributeSchema{a0: mkAttr("a0"), a1: mkAttr("a1")},
		Blocks: map[string]*schema.BlockSchema{
			b0: {Body: schema.NewBodySchema(), MaxItems: maxOf("b0max")},
			b1: {Body: schema.NewBodySchema(), MaxItems: maxOf("b1max")},
		},
	}
	ext := pick("ext", 3, 2)
	extCount, extForEach := ext >= 1, ext == 2
	if extCount || extForEach {
		bs.Extensions = &schema.BodyExtensions{Count: extCount, ForEach: extForEach}
	}
	verifAssume(bs.Validate() == nil)

	// configuration: which of the known items are already written
	src := ""
	hasA0, hasA1 := pick("hasa0", 2, 0) == 1, pick("hasa1", 2, 0) == 1
	hasCount := pick("hascount", 2, 2) == 1
	if hasA0 {
		src += a0 + " = \"x\"\n"
	}
	if hasA1 {
		src += a1 + " = \"x\"\n"
	}
	if hasCount && a0 != "count" && a1 != "count" {
		src += "count = 1\n"
	} else {
		hasCount = (hasA0 && a0 == "count") || (hasA1 && a1 == "count")
	}
	nb0 := pick("nb0", 3, 1)
	for k := 0; k < nb0; k++ {
		src += b0 + " {\n}\n"
	}
	hasForEach := (hasA0 && a0 == "for_each") || (hasA1 && a1 == "for_each")
	f := verifParseHCL(src, "body.tf")
	body := f.Body.(*hclsyntax.Body)

	// precondition (stated): a schema does not define attributes or blocks named like an extension it enables
	for _, n := range []string{a0, a1, b0, b1} {
		verifAssume(!(extCount && n == "count") && !(extForEach && n == "for_each"))
	}
	// the typed prefix lives in its own file
	prefix := []string{"", "a", "abc", "b", "co", "x"}[verifChoice("prefix", 6)]
	pf := &hcl.File{Bytes: []byte(prefix)}
	prefixRng := hcl.Range{Filename: "p.tf", Start: hcl.InitialPos, End: hcl.Pos{Line: 1, Column: 1 + len(prefix), Byte: len(prefix)}}
	d := verifDecoder(bs, map[string]*hcl.File{"body.tf": f, "p.tf": pf})
	verifFreeze(d.pathCtx)
	cs := d.bodySchemaCandidates(context.Background(), body, bs, prefixRng, prefixRng)
	verifNoWrites("C04:bodySchemaCandidates-writes", true)

	// specification
	declA := func(name string, as *schema.AttributeSchema, present bool) bool {
		return verifAnd(verifNot(verifAnd(as.IsComputed, verifNot(as.IsOptional))), !present)
	}
	expect := map[string]bool{}
	for _, n := range verifNameMenu {
		expect[n] = false
	}
	pre := func(n string) bool { return verifOr(len(prefix) == 0, hasPrefixSym(n, prefix)) }
	expect[a0] = verifAnd(declA(a0, bs.Attributes[a0], hasA0), pre(a0))
	expect[a1] = verifAnd(declA(a1, bs.Attributes[a1], hasA1), pre(a1))
	below := func(n, max int) bool { return verifOr(max == 0, n < max) }
	if b0 != a0 && b0 != a1 {
		expect[b0] = verifAnd(below(nb0, int(bs.Blocks[b0].MaxItems)), pre(b0))
	}
	if b1 != a0 && b1 != a1 {
		expect[b1] = verifAnd(below(0, int(bs.Blocks[b1].MaxItems)), pre(b1))
	}
	if extCount && a0 != "count" && a1 != "count" && b0 != "count" && b1 != "count" {
		expect["count"] = verifAnd(!hasCount, pre("count"))
	}
	if extForEach && a0 != "for_each" && a1 != "for_each" && b0 != "for_each" && b1 != "for_each" {
		expect["for_each"] = verifAnd(!hasForEach, pre("for_each"))
	}
	for _, n := range verifNameMenu {
		cnt := 0
		for _, c := range cs.List {
			if c.Label == n {
				cnt++
			}
		}
		verifAssert(cnt <= 1, "C07:no-duplicates")
		verifAssert((cnt == 1) == expect[n], "C07:offered-iff-allowed["+n+"]")
	}
	for k := 1; k < len(cs.List); k++ {
		verifAssert(cs.List[k-1].Label <= cs.List[k].Label, "C07:sorted-by-name")
	}
	verifAssert(cs.IsComplete, "C06:complete-below-limit")
	// accepting a candidate: the item it names, written into the body, makes validation report
	// no unexpected attribute/block and no surplus block that was not reported before
	surplus := func(text string) int {
		f2 := verifParseHCL(text, "body.tf")
		d2 := verifDecoder(bs, map[string]*hcl.File{"body.tf": f2})
		d2.pathCtx.Validators = verifValidators()
		diags, err := d2.ValidateFile(context.Background(), "body.tf")
		if err != nil {
			return 0
		}
		return verifCountDiags(diags, "Unexpected attribute") + verifCountDiags(diags, "Unexpected block") + verifCountDiags(diags, "Too many blocks")
	}
	before := surplus(src)
	for _, c := range cs.List {
		item := c.Label + " = \"x\"\n"
		if c.Kind == lang.BlockCandidateKind {
			item = c.Label + " {\n}\n"
		}
		verifAssert(surplus(src+item) <= before, "C07:accepted-candidate-is-neither-unexpected-nor-surplus["+c.Label+"]")
	}
	verifReach("end")
}

var _ = lang.Candidates{}

// C06(c): limit and 'complete' flag of bodySchemaCandidates. The limit is
// symbolic (the code depends on it through comparisons only); the population
// of matching attributes/blocks and the extensions vary.
func VerifH_C06_BodyCandidates_Limit() {
	m := verifInt("max", 0, 4)
	na := verifChoice("nattrs", 5)
	nb := verifChoice("nblocks", 3)
	ext := verifChoice("ext", 3)
	bs := &schema.BodySchema{Attributes: map[string]*schema.AttributeSchema{}, Blocks: map[string]*schema.BlockSchema{}}
	for i := 0; i < na; i++ {
		bs.Attributes[[]string{"a0", "a1", "a2", "a3"}[i]] = verifOpt(schema.LiteralType{Type: cty.String})
	}
	for i := 0; i < nb; i++ {
		bs.Blocks[[]string{"b0", "b1"}[i]] = &schema.BlockSchema{Body: schema.NewBodySchema()}
	}
	if ext > 0 {
		bs.Extensions = &schema.BodyExtensions{Count: true, ForEach: ext == 2}
	}
	f := verifParseHCL("\n", "body.tf")
	body := f.Body.(*hclsyntax.Body)
	d := verifDecoder(bs, map[string]*hcl.File{"body.tf": f})
	d.maxCandidates = uint(m)
	rng := hcl.Range{Filename: "body.tf", Start: hcl.InitialPos, End: hcl.InitialPos}
	cs := d.bodySchemaCandidates(context.Background(), body, bs, rng, rng)
	total := na + nb + ext
	verifAssert(len(cs.List) <= m, "C06:list-within-limit")
	if cs.IsComplete {
		verifAssert(len(cs.List) == total, "C06:complete-only-if-nothing-omitted")
	}
	verifReach("end")
}

// C07 (K): accepting a block candidate inside a body that enables dynamic blocks. The number of
// literal and of dynamic "ebs" blocks already written and the MaxItems limit of the block type are
// varied (the limit is symbolic); every block candidate offered on the empty line is written into
// the body and the result validated: no unexpected and no surplus block that was not there before.
func VerifH_C07_Accept_BlocksNextToDynamic() {
	max := uint64(verifInt("max", 0, 3))
	nlit := verifChoice("nlit", 3)
	ndyn := verifChoice("ndyn", 3)
	bs := &schema.BodySchema{Blocks: map[string]*schema.BlockSchema{
		"res": {Body: &schema.BodySchema{
			Extensions: &schema.BodyExtensions{DynamicBlocks: true},
			Blocks: map[string]*schema.BlockSchema{
				"ebs":   {Body: schema.NewBodySchema(), MaxItems: max},
				"other": {Body: schema.NewBodySchema()},
			},
		}},
	}}
	head := "res {\n"
	for k := 0; k < nlit; k++ {
		head += "  ebs {\n  }\n"
	}
	for k := 0; k < ndyn; k++ {
		head += "  dynamic \"ebs\" {\n    for_each = []\n    content {\n    }\n  }\n"
	}
	tail := "}\n"
	src := head + "  \n" + tail
	surplus := func(text string) int {
		f2 := verifParseHCL(text, "body.tf")
		d2 := verifDecoder(bs, map[string]*hcl.File{"body.tf": f2})
		d2.pathCtx.Validators = verifValidators()
		diags, err := d2.ValidateFile(context.Background(), "body.tf")
		if err != nil {
			return 0
		}
		return verifCountDiags(diags, "Unexpected attribute") + verifCountDiags(diags, "Unexpected block") + verifCountDiags(diags, "Too many blocks")
	}
	d := verifDecoder(bs, map[string]*hcl.File{"body.tf": verifParseHCL(src, "body.tf")})
	pos, _ := verifPosAt(src, len(head)+2)
	cs, err := d.CompletionAtPos(context.Background(), "body.tf", pos)
	if err == nil {
		before := surplus(src)
		offered := false
		for _, c := range cs.List {
			if c.Kind != lang.BlockCandidateKind || c.Label == "dynamic" {
				continue
			}
			offered = verifOr(offered, c.Label == "ebs")
			verifAssert(surplus(head+"  "+c.Label+" {\n  }\n"+tail) <= before, "C07:accepted-block-candidate-next-to-dynamic-blocks-is-not-surplus["+c.Label+"]")
		}
		// the limit counts the blocks written out: below it the block type is offered
		if verifOr(max == 0, uint64(nlit) < max) {
			verifAssert(offered, "C07:block-type-below-its-limit-is-offered")
		}
	}
	verifReach("end")
}
