package reference

import (
	"context"
	"strings"

	"github.com/hashicorp/hcl-lang/lang"
	"github.com/hashicorp/hcl-lang/schema"
	"github.com/hashicorp/hcl/v2"
	"github.com/zclconf/go-cty/cty"
	"github.com/zclconf/go-cty/cty/convert"
)

// C08 (K): Targets.MatchWalk — every target handed to the callback satisfies
// the conditions the property states, for target forests with symbolic ranges
// and menu-chosen addresses, scopes and types.

var verifTypeMenu = []cty.Type{cty.NilType, cty.DynamicPseudoType, cty.String, cty.Number, cty.List(cty.String), cty.Object(map[string]cty.Type{"a": cty.String}), cty.Map(cty.DynamicPseudoType)}
var verifScopeMenu = []lang.ScopeId{"", "variable", "resource"}

// The enumerated dimensions are split over three instances: 0 varies visibility
// (local addresses, targetable-from ranges, self refs), 1 varies fit (types and
// scopes of target, nested target and constraint), 2 varies addresses and prefix.
// A dimension an instance does not vary is pinned to the given default.
var verifMode int

func verifPick(name string, n int, mode int, dflt int) int {
	if verifMode == mode {
		return verifChoice(name, n)
	}
	return dflt
}

func verifRange(tag string, file string) hcl.Range {
	var s, e int
	if verifMode == 0 {
		s = verifInt(tag+"s", 0, 60)
		e = verifInt(tag+"e", 0, 60)
		verifAssume(s <= e)
	} else {
		// ranges do not matter for this instance: disjoint concrete ones
		k := map[string]int{"t0r": 0, "t0tfr": 0, "t1r": 20, "origin": 40, "outer": 100}[tag]
		s, e = k, k+10
		if tag == "t0tfr" {
			e = 90
		}
	}
	// single-line file: column = byte + 1
	return hcl.Range{Filename: file, Start: hcl.Pos{Line: 1, Column: s + 1, Byte: s}, End: hcl.Pos{Line: 1, Column: e + 1, Byte: e}}
}

func verifAddr(tag string, local bool) lang.Address {
	if local {
		switch verifPick(tag+"l", 4, 0, 1) {
		case 0:
			return nil
		case 1:
			return lang.Address{lang.RootStep{Name: "self"}, lang.AttrStep{Name: "foo"}}
		case 2:
			return lang.Address{lang.RootStep{Name: "count"}, lang.AttrStep{Name: "index"}}
		}
		return lang.Address{lang.RootStep{Name: "each"}, lang.AttrStep{Name: "value"}}
	}
	if verifMode == 0 {
		// visibility: targets with and without an absolute address
		if verifChoice(tag+"a0", 2) == 0 {
			return nil
		}
		return lang.Address{lang.RootStep{Name: "var"}, lang.AttrStep{Name: "foo"}}
	}
	switch verifPick(tag+"a", 4, 2, 1) {
	case 0:
		return nil
	case 1:
		return lang.Address{lang.RootStep{Name: "var"}, lang.AttrStep{Name: "foo"}}
	case 2:
		return lang.Address{lang.RootStep{Name: "var"}, lang.AttrStep{Name: "bar"}}
	}
	return lang.Address{lang.RootStep{Name: "self"}, lang.AttrStep{Name: "foo"}}
}

func verifMkTarget(tag string, nested bool) Target {
	t := Target{Addr: verifAddr(tag, false), LocalAddr: verifAddr(tag, true),
		ScopeId: verifScopeMenu[verifPick(tag+"scope", len(verifScopeMenu), 1, 1)],
		Type:    verifTypeMenu[verifPick(tag+"type", len(verifTypeMenu), 1, 2)]}
	if verifPick(tag+"hasrange", 2, 0, 1) == 1 {
		r := verifRange(tag+"r", "f.tf")
		t.RangePtr = &r
	}
	if len(t.LocalAddr) > 0 && verifPick(tag+"hastfr", 2, 0, 1) == 1 {
		// the block the local name belongs to may be in another file of the same path
		r := verifRange(tag+"tfr", []string{"f.tf", "g.tf"}[verifPick(tag+"tfrfile", 2, 0, 0)])
		t.TargetableFromRangePtr = &r
	}
	if nested {
		t.NestedTargets = Targets{{Addr: append(t.Addr.Copy(), lang.AttrStep{Name: "n"}), ScopeId: t.ScopeId,
			Type: verifTypeMenu[verifPick(tag+"ntype", len(verifTypeMenu), 1, 3)]}}
		if len(t.Addr) == 0 {
			t.NestedTargets = nil
		}
	}
	return t
}

// specification helpers, re-stated from the documentation of the types
func specOverlaps(a, b hcl.Range) bool {
	if a.Filename != b.Filename {
		return false
	}
	aEmpty := a.Start.Byte == a.End.Byte
	bEmpty := b.Start.Byte == b.End.Byte
	in := func(r hcl.Range, off int) bool { return verifAnd(r.Start.Byte <= off, off < r.End.Byte) }
	return verifAnd(verifNot(verifAnd(aEmpty, bEmpty)),
		verifOr(verifOr(in(a, b.Start.Byte), in(a, b.End.Byte)), verifOr(in(b, a.Start.Byte), in(b, a.End.Byte))))
}

func specFits(t Target, ref schema.Reference) bool {
	if ref.OfScopeId != "" && t.ScopeId != ref.OfScopeId {
		return false
	}
	if ref.OfType == cty.NilType {
		return t.Type == cty.NilType
	}
	if t.Type == cty.NilType {
		return false
	}
	if t.Type == cty.DynamicPseudoType {
		return true
	}
	_, err := convert.Convert(cty.UnknownVal(t.Type), ref.OfType)
	return err == nil
}

func specAnyDescendantFits(t Target, ref schema.Reference) bool {
	for _, n := range t.NestedTargets {
		if specFits(n, ref) || specAnyDescendantFits(n, ref) {
			return true
		}
	}
	return false
}

func VerifP_C08_MatchWalk_N() int { return 3 }
func VerifP_C08_MatchWalk_Name(i int) string {
	return []string{"visibility", "fit", "addresses"}[i]
}
func VerifP_C08_MatchWalk(mode int) {
	verifMode = mode
	t0 := verifMkTarget("t0", true)
	t1 := Target{Addr: lang.Address{lang.RootStep{Name: "var"}, lang.AttrStep{Name: "bar"}}, ScopeId: "variable", Type: cty.Number}
	verifAssume(len(t0.Addr) > 0 || len(t0.LocalAddr) > 0)
	targets := Targets{t0, t1}
	ref := schema.Reference{OfScopeId: verifScopeMenu[verifPick("refscope", len(verifScopeMenu), 1, 0)], OfType: verifTypeMenu[verifPick("reftype", 4, 1, 2)]}
	prefix := []string{"", "v", "var.f", "self.", "c", "x"}[verifPick("prefix", 6, 2, 0)]
	origin := verifRange("origin", "f.tf")
	outer := verifRange("outer", "f.tf")
	ctx := context.Background()
	selfOn := verifPick("self", 2, 0, 1) == 1
	if selfOn {
		ctx = schema.WithActiveSelfRefs(ctx)
	}
	var offered []Target
	targets.MatchWalk(ctx, ref, prefix, outer, origin, func(t Target) error {
		offered = append(offered, t)
		return nil
	})
	for _, t := range offered {
		localP := len(t.LocalAddr) > 0 && strings.HasPrefix(t.LocalAddr.String(), prefix)
		absP := len(t.Addr) > 0 && strings.HasPrefix(t.Addr.String(), prefix)
		verifAssert(localP || absP, "C08:offered-address-has-prefix")
		verifAssert(specFits(t, ref) || specAnyDescendantFits(t, ref), "C08:offered-fits-or-has-fitting-descendant")
		if !absP {
			// offered as a block-local name
			if t.LocalAddr[0].String() == "self" {
				verifAssert(selfOn, "C08:self-only-where-enabled")
			}
			if t.TargetableFromRangePtr != nil {
				verifAssert(specOverlaps(*t.TargetableFromRangePtr, origin), "C08:local-name-only-inside-its-block")
			}
			if t.RangePtr != nil && !specAnyDescendantFits(t, ref) {
				verifAssert(verifNot(specOverlaps(*t.RangePtr, origin)), "C08:never-the-attribute-being-edited")
			}
		}
	}
	verifReach("end")
}

// Round trip: accepting an offered target that itself fits yields an origin that resolves to it.
func VerifP_C08_RoundTrip_N() int { return 2 }
func VerifP_C08_RoundTrip(mode int) {
	verifMode = mode
	t0 := verifMkTarget("t0", false)
	verifAssume(len(t0.Addr) > 0 || len(t0.LocalAddr) > 0)
	targets := Targets{t0}
	ref := schema.Reference{OfScopeId: verifScopeMenu[verifPick("refscope", len(verifScopeMenu), 1, 0)], OfType: verifTypeMenu[verifPick("reftype", 4, 1, 2)]}
	origin := verifRange("origin", "f.tf")
	outer := verifRange("outer", "f.tf")
	ctx := context.Background()
	if verifPick("self", 2, 0, 1) == 1 {
		ctx = schema.WithActiveSelfRefs(ctx)
	}
	var offered []Target
	targets.MatchWalk(ctx, ref, "", outer, origin, func(t Target) error {
		offered = append(offered, t)
		return nil
	})
	for _, t := range offered {
		if !specFits(t, ref) {
			continue
		}
		addr := t.Address(ctx, origin.Start)
		o := LocalOrigin{Addr: addr, Range: origin, Constraints: OriginConstraints{{OfScopeId: ref.OfScopeId, OfType: ref.OfType}}}
		found, _ := targets.Match(o)
		ok := false
		for _, f := range found {
			if f.Addr.String() == t.Addr.String() && f.LocalAddr.String() == t.LocalAddr.String() {
				ok = true
			}
		}
		where := "[same-file]"
		if t.TargetableFromRangePtr != nil && t.TargetableFromRangePtr.Filename != origin.Filename {
			where = "[block-in-other-file]"
		}
		verifAssert(ok, "C08:accepted-candidate-resolves-to-its-declaration"+where)
	}
	verifReach("end")
}
