package reference

import (
	"github.com/hashicorp/hcl-lang/lang"
)

func verifTarget(tag string) Target {
	t := Target{}
	if verifChoice(tag+"addr", 2) == 1 {
		t.Addr = lang.Address{lang.RootStep{Name: verifString(tag+"a", 3, "a-c")}}
	}
	if verifChoice(tag+"laddr", 2) == 1 {
		t.LocalAddr = lang.Address{lang.RootStep{Name: verifString(tag+"l", 3, "a-c")}}
	}
	return t
}

// C03: the comparator used by sort.Sort(Targets) must be a strict weak order.
func VerifH_C03_Less_Asymmetric() {
	ts := Targets{verifTarget("x"), verifTarget("y")}
	a := ts.Less(0, 1)
	b := ts.Less(1, 0)
	verifAssert(verifNot(verifAnd(a, b)), "C03:Less-asymmetric")
	verifReach("end")
}

func VerifH_C03_Less_Irreflexive() {
	ts := Targets{verifTarget("x")}
	verifAssert(verifNot(ts.Less(0, 0)), "C03:Less-irreflexive")
	verifReach("end")
}
