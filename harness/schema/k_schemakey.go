package schema

import (
	"github.com/hashicorp/hcl-lang/lang"
	"github.com/zclconf/go-cty/cty"
)

// C16 (K): a schema key depends only on the set of key/value pairs, not on the
// order in which they are listed, and different sets never share a key.
// Label indices and values and attribute names are symbolic; attribute values
// come from a menu of static values and addresses. Stated precondition: a
// block has one label per index and one attribute per name. Label values and
// attribute names range over [a-z]* (the JSON encoder's escaping is not
// modelled, assumption A-JSON).

func verifExprValue(tag string) ExpressionValue {
	switch verifChoice(tag, 4) {
	case 0:
		return ExpressionValue{Static: cty.StringVal("x")}
	case 1:
		return ExpressionValue{Static: cty.NumberIntVal(1)}
	case 2:
		return ExpressionValue{Static: cty.True}
	}
	return ExpressionValue{Address: lang.Address{lang.RootStep{Name: "var"}, lang.AttrStep{Name: "a"}}}
}

func verifLabelKeys(tag string, n int) []LabelDependent {
	out := make([]LabelDependent, n)
	for i := range out {
		out[i] = LabelDependent{Index: verifInt(tag+"idx", 0, 3), Value: verifString(tag+"val", 2, "a-b")}
	}
	for i := range out {
		for j := 0; j < i; j++ {
			verifAssume(out[i].Index != out[j].Index)
		}
	}
	return out
}

func VerifH_C16_SchemaKey_LabelOrderInvariant() {
	n := 2 + verifChoice("n", 2)
	ls := verifLabelKeys("l", n)
	// every rotation and the reverse of the same set
	var perm []LabelDependent
	if verifChoice("perm", 2) == 0 {
		perm = append(append(perm, ls[1:]...), ls[0])
	} else {
		for i := n - 1; i >= 0; i-- {
			perm = append(perm, ls[i])
		}
	}
	k1 := NewSchemaKey(DependencyKeys{Labels: append([]LabelDependent{}, ls...)})
	k2 := NewSchemaKey(DependencyKeys{Labels: perm})
	verifAssert(k1 == k2, "C16:key-independent-of-label-order")
	verifReach("end")
}

func VerifH_C16_SchemaKey_AttrOrderInvariant() {
	a := AttributeDependent{Name: verifString("n0", 2, "a-b"), Expr: verifExprValue("e0")}
	b := AttributeDependent{Name: verifString("n1", 2, "a-b"), Expr: verifExprValue("e1")}
	verifAssume(a.Name != b.Name)
	l := LabelDependent{Index: verifInt("idx", 0, 2), Value: verifString("val", 2, "a-b")}
	k1 := NewSchemaKey(DependencyKeys{Labels: []LabelDependent{l}, Attributes: []AttributeDependent{a, b}})
	k2 := NewSchemaKey(DependencyKeys{Labels: []LabelDependent{l}, Attributes: []AttributeDependent{b, a}})
	verifAssert(k1 == k2, "C16:key-independent-of-attribute-order")
	verifReach("end")
}

func VerifH_C16_SchemaKey_Injective() {
	// two single-label-plus-single-attribute key sets that differ somewhere
	l1 := LabelDependent{Index: verifInt("i1", 0, 2), Value: verifString("v1", 2, "a-b")}
	l2 := LabelDependent{Index: verifInt("i2", 0, 2), Value: verifString("v2", 2, "a-b")}
	c1, c2 := verifChoice("e1", 4), verifChoice("e2", 4)
	mk := func(c int) ExpressionValue {
		switch c {
		case 0:
			return ExpressionValue{Static: cty.StringVal("x")}
		case 1:
			return ExpressionValue{Static: cty.NumberIntVal(1)}
		case 2:
			return ExpressionValue{Static: cty.True}
		}
		return ExpressionValue{Address: lang.Address{lang.RootStep{Name: "var"}, lang.AttrStep{Name: "a"}}}
	}
	a1 := AttributeDependent{Name: verifString("n1", 2, "a-b"), Expr: mk(c1)}
	a2 := AttributeDependent{Name: verifString("n2", 2, "a-b"), Expr: mk(c2)}
	same := verifAnd(verifAnd(l1.Index == l2.Index, l1.Value == l2.Value), verifAnd(a1.Name == a2.Name, c1 == c2))
	k1 := NewSchemaKey(DependencyKeys{Labels: []LabelDependent{l1}, Attributes: []AttributeDependent{a1}})
	k2 := NewSchemaKey(DependencyKeys{Labels: []LabelDependent{l2}, Attributes: []AttributeDependent{a2}})
	verifAssert((k1 == k2) == same, "C16:different-key-sets-different-keys")
	// and a labels-only set never collides with a labels+attributes set
	k3 := NewSchemaKey(DependencyKeys{Labels: []LabelDependent{l1}})
	verifAssert(k3 != k1, "C16:labels-only-differs-from-labels-and-attributes")
	verifReach("end")
}
