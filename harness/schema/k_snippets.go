package schema

import (
	"context"
	"strings"

	"github.com/zclconf/go-cty/cty"
)

// C06(b): the text forms of completion data. For every constraint of a menu
// covering all kinds and their nestings, EmptyCompletionData(ctx, p, n) with a
// symbolic first placeholder p: the plain text has no tab-stop syntax of its
// own; the tab stops of the snippet are exactly p .. NextPlaceholder-1, each
// once.

func verifConstraintMenu() []Constraint {
	str := LiteralType{Type: cty.String}
	num := LiteralType{Type: cty.Number}
	return []Constraint{
		str,
		LiteralType{Type: cty.Bool},
		LiteralType{Type: cty.List(cty.String)},
		LiteralType{Type: cty.Map(cty.Number)},
		LiteralType{Type: cty.Object(map[string]cty.Type{"a": cty.String, "b": cty.Number})},
		LiteralType{Type: cty.Tuple([]cty.Type{cty.String, cty.Bool})},
		LiteralValue{Value: cty.StringVal("v")},
		LiteralValue{Value: cty.NumberIntVal(7)},
		LiteralValue{Value: cty.ListVal([]cty.Value{cty.StringVal("a")})},
		LiteralValue{Value: cty.ObjectVal(map[string]cty.Value{"k": cty.True})},
		Keyword{Keyword: "kw"},
		AnyExpression{OfType: cty.String},
		AnyExpression{OfType: cty.List(cty.Number)},
		AnyExpression{OfType: cty.Object(map[string]cty.Type{"a": cty.String})},
		Reference{OfScopeId: "x"},
		TypeDeclaration{},
		List{Elem: str},
		List{Elem: List{Elem: num}},
		Set{Elem: str},
		Tuple{Elems: []Constraint{str, num}},
		Tuple{Elems: []Constraint{Map{Elem: str}, str}},
		Map{Elem: str},
		Map{Elem: Map{Elem: num}},
		Map{},
		Object{Attributes: ObjectAttributes{"a": {Constraint: str, IsRequired: true}, "b": {Constraint: num, IsOptional: true}}},
		Object{Attributes: ObjectAttributes{"m": {Constraint: Map{Elem: str}, IsRequired: true}, "s": {Constraint: str, IsRequired: true}}},
		Object{Attributes: ObjectAttributes{"o": {Constraint: Object{Attributes: ObjectAttributes{"x": {Constraint: str, IsRequired: true}}}, IsRequired: true}, "z": {Constraint: num, IsRequired: true}}},
		Tuple{Elems: []Constraint{Reference{OfScopeId: "x"}, str}},
		Tuple{Elems: []Constraint{str, AnyExpression{OfType: cty.String}, num}},
		List{Elem: Reference{OfScopeId: "x"}},
		Map{Elem: AnyExpression{OfType: cty.String}},
		Object{Attributes: ObjectAttributes{"r": {Constraint: Reference{OfScopeId: "x"}, IsRequired: true}, "s": {Constraint: str, IsRequired: true}}},
		Object{Attributes: ObjectAttributes{"a": {Constraint: AnyExpression{OfType: cty.Number}, IsRequired: true}, "l": {Constraint: List{Elem: str}, IsRequired: true}, "s": {Constraint: str, IsRequired: true}}},
		OneOf{str, num},
		OneOf{Map{Elem: str}, str},
	}
}

// verifTabStops returns the tab-stop numbers occurring in a snippet, in order.
func verifTabStops(snippet string) []int {
	var stops []int
	ps := verifPieces(snippet)
	for i, p := range ps {
		if p.IsNum {
			if i > 0 && strings.HasSuffix(ps[i-1].Lit, "${") {
				stops = append(stops, p.Num)
			}
			continue
		}
		// tab stops written out in a literal piece
		lit := p.Lit
		for k := 0; k+2 < len(lit); k++ {
			if lit[k] == '$' && lit[k+1] == '{' && lit[k+2] >= '0' && lit[k+2] <= '9' {
				n := 0
				for j := k + 2; j < len(lit) && lit[j] >= '0' && lit[j] <= '9'; j++ {
					n = n*10 + int(lit[j]-'0')
				}
				stops = append(stops, n)
			}
		}
	}
	return stops
}

func verifNoTabStopSyntax(text string) bool {
	for _, p := range verifPieces(text) {
		if p.IsNum {
			return false // a formatted number right after "${" (see verifTabStops) - checked below
		}
		lit := p.Lit
		for k := 0; k+1 < len(lit); k++ {
			if lit[k] == '$' && (lit[k+1] == '{' || (lit[k+1] >= '0' && lit[k+1] <= '9')) {
				if lit[k+1] != '{' || (k+2 < len(lit) && lit[k+2] >= '0' && lit[k+2] <= '9') {
					return false
				}
			}
		}
	}
	return true
}

func VerifP_C06_EmptyCompletionData_N() int { return len(verifConstraintMenu()) }
func VerifP_C06_EmptyCompletionData_Name(i int) string {
	return verifConstraintMenu()[i].FriendlyName()
}
func VerifP_C06_EmptyCompletionData(i int) {
	c := verifConstraintMenu()[i]
	p := verifInt("p", 1, 40)
	nest := verifChoice("nesting", 2)
	ctx := context.Background()
	if verifChoice("prefill", 2) == 1 {
		ctx = WithPrefillRequiredFields(ctx, true)
	}
	cd := c.EmptyCompletionData(ctx, p, nest)
	if cd.Snippet == "" {
		// nothing to insert (e.g. a reference: the client is asked to trigger suggestions);
		// callers ignore NextPlaceholder of such data, the property does not constrain it
		verifAssert(verifNoTabStopSyntax(cd.NewText), "C06:plain-text-has-no-tab-stops")
		verifReach("end")
		return
	}
	verifAssert(cd.NextPlaceholder >= p, "C06:next-placeholder-not-before-first")
	stops := verifTabStops(cd.Snippet)
	for a, s := range stops {
		verifAssert(verifAnd(s >= p, s < cd.NextPlaceholder), "C06:tab-stop-in-own-interval")
		for b := 0; b < a; b++ {
			verifAssert(stops[b] != s, "C06:tab-stop-used-once")
		}
	}
	verifAssert(len(stops) == cd.NextPlaceholder-p, "C06:tab-stops-consecutive")
	verifAssert(verifNoTabStopSyntax(cd.NewText), "C06:plain-text-has-no-tab-stops")
	verifReach("end")
}
