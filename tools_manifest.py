#!/usr/bin/env python3
"""Writes MANIFEST.json from the table below (run after changing which properties are claimed)."""
import json
props=[json.loads(l)['id'] for l in open('/verif/properties.jsonl')]
claimed={
 "C01": ("implicit obligations (bounds, nil, type assertion, explicit panic) on every symbolic path of every G-driver (all entry points x seed corpus x all layouts x all cursors) and of the generated Copy() kernels; a path that exhausts its step budget is a non-termination candidate, confirmed only if the native replay does not return within its deadline either; a satisfiable obligation is replayed natively through the public API before it is reported",),
 "C02": ("every range in every result of every G-driver is asserted to be a real (line, column, byte) position of the stretched file in the right file with start<=end; decided by the solver over all layouts/cursors of each seed",),
 "C03": ("comparator lemmas (irreflexive, asymmetric) for the sort comparators over symbolic keys",),
 "C04": ("write-set analysis on every path of every G-driver: no value-changing store/map update/append/copy into any cell that existed before the query (schema, files, bytes, targets, functions) or into package-level state",),
 "C05": ("sufficient condition decided symbolically: no write of any kind to pre-existing or package-level state on any explored path (non-interference); candidates are replayed with 4 goroutines under the race detector",),
 "C06": ("edit ranges of all candidates: real range, starts at or before the cursor, reaches the cursor up to blanks; limit 100; over all layouts/cursors of each seed",),
 "C07": ("K-harness over bodySchemaCandidates: candidates equal the specification (known, prefix, still declarable, not shadowed, extensions) for symbolic flags/limits over a menu of names and prefixes; sorted, no duplicates",),
 "C08": ("K-harnesses over Targets.MatchWalk with symbolic ranges: every offered target has the prefix, is visible (self only where enabled, block-local names only inside their block, never the attribute being edited) and fits or has a fitting descendant; round trip through Targets.Match",),
 "C09": ("G-driver over CollectReferenceTargets: ranges real (weak part so far)",),
 "C10": ("G-driver over CollectReferenceOrigins: ranges real, ordered by position",),
 "C11": ("K-harness through Decoder.ReferenceTargetsForOriginAtPos/ReferenceOriginsTargetingPos over two paths with symbolic ranges and positions: resolution against the right path, block-local names only inside their block, find-references at the reported definition returns the origin",),
 "C12": ("HoverAtPos over all layouts/cursors of each seed: content non-empty and range contains the cursor",),
 "C13": ("SemanticTokensInFile over all layouts of each seed: ordered, disjoint, non-empty, advertised types, real ranges",),
 "C14": ("SymbolsInFile over all layouts of each seed: source order, child inside parent, names non-empty, real ranges",),
 "C15": ("ValidateFile over all layouts of each seed: diagnostic subjects are real ranges (weak part so far)",),
 "C16": ("LinksInFile over all layouts of each seed: link ranges real (weak part so far)",),
 "C17": ("generated from go/types at check time: for every schema type with Copy(), all fields populated symbolically, per-field equality obligations, independence of mutable containers, no write to the original",),
 "C18": ("relational G-drivers: every query on the seed at a seed position vs. on the seed with symbolic blank/comment lines inserted in a line slot at the image position; results must be identical up to the position shift (hover, completion, tokens, symbols, diagnostics, origins, targets)",),
 "C19": ("paired G-driver: the same configuration in native and JSON syntax, both stretched independently: absolute targets agree on address, scope and type, origins agree on addresses, the outlines agree; JSON ranges are real. The pairs are enumerated (weakest use of the technique), the layouts are symbolic",),
 "C20": ("SignatureAtPos over all layouts/cursors of each seed: active parameter is a valid index",),
}
checks=[]
for p in props:
    if p not in claimed: continue
    level="other" if p=="C05" else "model_checking"
    checks.append({
      "property_id":p,
      "quick_cmd":f"./check.sh {p} quick",
      "thorough_cmd":f"./check.sh {p} thorough",
      "evidence_file":f"/verif/evidence/{p}.json",
      "replay_cmd_template":"bin/gosym replay {path}",
      "engine":"gosym",
      "level_claimed":{"category":level,"text":"Bounded symbolic execution of the real code: "+claimed[p][0]+". Holds within the stated bounds (seed corpus, blanks per gap, total extra blanks, path/step budgets); nothing is claimed outside.","design_ref":"DESIGN.md section 6 "+p},
      "level_note":"trusted: go/ssa construction, the gosym interpreter and its stubs (listed in evidence), cvc5/z3; parsers are run natively on seeds (assumptions A-PARSE/A-LEX); violations are reported only after a native replay reproduces them",
      "technique":"SMT-based bounded symbolic execution of go/ssa (own engine), native replay of counterexamples",
    })
na=[{"property_id":p,"reason":"check not built yet in this round (engine exists; harness pending); see DESIGN.md section 9"} for p in props if p not in claimed]
m={"version":1,
 "setup_cmd":"cd /verif/engine && GOFLAGS=-mod=mod GOPROXY=off GOSUMDB=off GOTOOLCHAIN=local go build -o /verif/bin/gosym .",
 "hooks":{"guard":"verif","enable":"no hooks in /repo: harnesses are injected as /repo/<pkg>/zz_verif_*.go through go/packages overlays (engine) and go test -overlay (replay)","baseline_off_cmd":"cd /verif/engine && GOFLAGS=-mod=mod GOPROXY=off GOSUMDB=off GOTOOLCHAIN=local go test -vet=off -count=1 github.com/hashicorp/hcl-lang/...","source_commits":[],"add_only":True},
 "engines":[{"name":"gosym","path":"/verif/engine","serves_properties":[c["property_id"] for c in checks],"kind_free_text":"forking symbolic interpreter for go/ssa with SMT-LIB2 back ends (cvc5, z3), derived from x/tools/go/ssa/interp"}],
 "checks":checks,
 "notes":"All checks rebuild the SSA of /repo's working tree on every run. Known findings: /verif/KNOWN_FINDINGS.txt.",
 "not_applicable":na}
json.dump(m,open('/verif/MANIFEST.json','w'),indent=1)
print(len(checks),"checks;",len(na),"not applicable")

# record the tree of /repo the harnesses are in line with (see check.go repoIsRecordedTree)
import subprocess
tree = subprocess.run(["git", "-C", "/repo", "rev-parse", "HEAD^{tree}"], capture_output=True, text=True).stdout.strip()
if tree:
    open("/verif/REPO_TREE", "w").write(tree + "\n")
