#!/bin/sh
# usage: check.sh <property-id> <quick|thorough>
# Rebuilds the SSA of /repo's current working tree (inside gosym) on every run.
export GOFLAGS=-mod=mod GOPROXY=off GOSUMDB=off GOTOOLCHAIN=local
cd /verif || exit 2
if [ ! -x /verif/bin/gosym ]; then
  (cd /verif/engine && go build -o /verif/bin/gosym .) || exit 2
fi
exec /verif/bin/gosym check "$1" --tier "${2:-quick}"
